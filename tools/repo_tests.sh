#!/bin/sh
# Runs the repository's own tests against a source tree (default /repo/src): the stricter bar for
# "a change still passes the existing tests" (the pinned baseline command imports the wheel in site-packages).
SRC="${1:-/repo}"
cd "$SRC" || exit 2
rm -rf "$SRC/.hypothesis/examples"
PYTHONPATH="$SRC/src" MPLBACKEND=Agg PYTHONDONTWRITEBYTECODE=1 timeout 1200 /venv/bin/python -m pytest -q -p no:cacheprovider -n 8 --hypothesis-seed=0 2>&1 | tail -${2:-8}
