#!/usr/bin/env python3
"""Regenerates MANIFEST.json from the table below (kept in one place so it stays valid)."""
import json
import os

VERIF = os.path.dirname(os.path.dirname(os.path.abspath(__file__)))

# property id -> dict(level, text, note, technique, design) for claimed checks
CLAIMED = {}
NOT_YET = {}


def claim(pid, category, text, note, technique, design):
    CLAIMED[pid] = dict(category=category, text=text, note=note, technique=technique, design=design)


exec(open(os.path.join(VERIF, "tools", "claims.py")).read())

props = [json.loads(l)["id"] for l in open(os.path.join(VERIF, "properties.jsonl"))]
checks = []
for pid in props:
    if pid in CLAIMED:
        c = CLAIMED[pid]
        checks.append({
            "property_id": pid,
            "quick_cmd": "./check %s --tier quick" % pid,
            "thorough_cmd": "./check %s --tier thorough" % pid,
            "evidence_file": "/verif/evidence/%s.json" % pid,
            "replay_cmd_template": "./check --replay {path}",
            "engine": "mc",
            "level_claimed": {"category": c["category"], "text": c["text"], "design_ref": c["design"]},
            "level_note": c["note"],
            "technique": c["technique"],
        })
na = [{"property_id": pid, "reason": NOT_YET.get(pid, "check not built yet in this session; see DESIGN.md section 4 for the planned bounded-exhaustive exploration")}
      for pid in props if pid not in CLAIMED]
m = {
    "version": 1,
    "setup_cmd": "/venv/bin/python /verif/tools/setup_check.py",
    "hooks": {
        "guard": "CIRCUITCALCULATOR_VERIF",
        "enable": "no hooks are needed: checks import /repo/src directly (sys.path) and read all state by introspection; the variable is exported by ./check but nothing in /repo reads it",
        "baseline_off_cmd": "cd /repo && /venv/bin/python -m pytest -ra -q -p no:cacheprovider --timeout=900 --continue-on-collection-errors",
        "source_commits": [],
        "add_only": True,
    },
    "engines": [{
        "name": "mc",
        "path": "/verif/mc",
        "serves_properties": sorted(CLAIMED),
        "kind_free_text": "hand-written bounded-exhaustive explorer for Python: level-by-level enumeration of finite input spaces (shape S) and explicit-state BFS over real library calls (shape G), 16 worker processes, exact Gaussian-rational reference models, replay files",
    }],
    "checks": checks,
    "notes": "All exploration runs the real functions of /repo/src (never the wheel in site-packages); VERIF_SEED only permutes shard hand-out order and evidence samples. Known findings: /verif/known_findings.json.",
    "not_applicable": na,
}
with open(os.path.join(VERIF, "MANIFEST.json"), "w") as f:
    json.dump(m, f, indent=1)
print("MANIFEST.json: %d checks, %d not_applicable" % (len(checks), len(na)))
