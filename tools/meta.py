#!/usr/bin/env python3
"""tools/meta.py <seeded name> property=C02 needs="..." caught_by="C02,C07" note="..." """
import json, sys, os
d = os.path.join('/verif/seeded', sys.argv[1], 'meta.json')
m = json.load(open(d)) if os.path.exists(d) else {}
for kv in sys.argv[2:]:
    k, v = kv.split('=', 1)
    m[k] = v
json.dump(m, open(d, 'w'), indent=1)
