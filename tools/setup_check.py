#!/venv/bin/python
"""MANIFEST.setup_cmd: nothing to build; verify the toolchain and that /repo/src is importable."""
import os
import sys
sys.path.insert(0, "/repo/src")
os.environ.setdefault("MPLBACKEND", "Agg")
import numpy, scipy, mpmath, yaml, schemdraw  # noqa
import CircuitCalculator
assert os.path.realpath(CircuitCalculator.__file__).startswith("/repo/src/"), CircuitCalculator.__file__
os.makedirs("/verif/evidence", exist_ok=True)
os.makedirs("/verif/replays", exist_ok=True)
print("setup ok", numpy.__version__, scipy.__version__)
