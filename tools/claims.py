# executed by gen_manifest.py
claim("C01", "model_checking",
      "Every connected labelled multigraph network up to the stated (nodes, branches) levels x every kind assignment x every orientation x every reference node x two label order types x value palettes x id schemes is solved by the real solver and judged against Kirchhoff's laws, the per-kind element laws (in the documented reference directions) and an independent tableau solution; well-posedness is decided exactly over Q(i). Complete enumeration inside the bounds, no sampling.",
      "numpy linear algebra; palettes stand for continuous values; sizes beyond the levels listed in the evidence are not examined",
      "bounded-exhaustive input-space enumeration on the implementation (stateless explicit exploration) with exact rational domain decision",
      "DESIGN.md section 4 C01")
