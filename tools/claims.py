# executed by gen_manifest.py
claim("C01", "model_checking",
      "Every connected labelled multigraph network up to the stated (nodes, branches) levels x every kind assignment x every orientation x every reference node x two label order types x value palettes x id schemes is solved by the real solver and judged against Kirchhoff's laws, the per-kind element laws (in the documented reference directions) and an independent tableau solution; well-posedness is decided exactly over Q(i). Complete enumeration inside the bounds, no sampling.",
      "numpy linear algebra; palettes stand for continuous values; sizes beyond the levels listed in the evidence are not examined",
      "bounded-exhaustive input-space enumeration on the implementation (stateless explicit exploration) with exact rational domain decision",
      "DESIGN.md section 4 C01")
claim("C06", "model_checking",
      "Every network up to the listed levels over {Z,Y,V,I,LV,LI,open} in every orientation, with every reference node, is queried at every ordered node pair and every element; port impedance is compared with an exact rational reference (sources deactivated, unit current injected), symmetry, zero cases, element impedance, Thevenin loading with four loads (library's own Voc/Zth/Isc, load attached and re-solved by the library), Isc=Voc/Zth and the equivalent-source objects are judged on every one; RLC ladders are swept through the frequency wrappers. Complete enumeration inside the bounds.",
      "numpy linear algebra; palettes; multi-node floating islands are in the domain only as far as they hang on open branches",
      "bounded-exhaustive input-space enumeration on the implementation with an exact rational reference model",
      "DESIGN.md section 4 C06")
