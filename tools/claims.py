# executed by gen_manifest.py
claim("C01", "model_checking",
      "Every connected labelled multigraph network up to the stated (nodes, branches) levels x every kind assignment x every orientation x every reference node x two label order types x value palettes x id schemes is solved by the real solver and judged against Kirchhoff's laws, the per-kind element laws (in the documented reference directions) and an independent tableau solution; well-posedness is decided exactly over Q(i). Complete enumeration inside the bounds, no sampling.",
      "numpy linear algebra; palettes stand for continuous values; sizes beyond the levels listed in the evidence are not examined",
      "bounded-exhaustive input-space enumeration on the implementation (stateless explicit exploration) with exact rational domain decision",
      "DESIGN.md section 4 C01")
claim("C06", "model_checking",
      "Every network up to the listed levels over {Z,Y,V,I,LV,LI,open} in every orientation, with every reference node, is queried at every ordered node pair and every element; port impedance is compared with an exact rational reference (sources deactivated, unit current injected), symmetry, zero cases, element impedance, Thevenin loading with four loads (library's own Voc/Zth/Isc, load attached and re-solved by the library), Isc=Voc/Zth and the equivalent-source objects are judged on every one; RLC ladders are swept through the frequency wrappers. Complete enumeration inside the bounds.",
      "numpy linear algebra; palettes; multi-node floating islands are in the domain only as far as they hang on open branches",
      "bounded-exhaustive input-space enumeration on the implementation with an exact rational reference model",
      "DESIGN.md section 4 C06")
claim("C04", "model_checking",
      "Every well-posed network of the listed levels with at least one source, in every orientation and with every reference node, is solved with every scale factor and with every subset of its sources kept active through the library's own zeroing operations; homogeneity, |a|^2 power scaling, superposition over all subsets and the zero solution of the all-off network are judged on every one.",
      "numpy linear algebra; palettes; relations between runs of the library (no reference solve except for the domain decision and the natural scale)",
      "bounded-exhaustive enumeration with two-run (metamorphic) relations on the implementation",
      "DESIGN.md section 4 C04")
claim("C16", "model_checking",
      "Explicit-state search: from every network of the listed levels over {Z,V,I,LV,short,open} (shorts/opens in every position, orientation and reference) every one of the public simplification operations is applied with every admissible parameter and exemption list, results are fed to further operations up to the stated depth; every transition is judged by a netlist-level reference of the operation (survivor identity, renaming only inside contracted classes, exemptions), an input snapshot, and electrical equivalence computed with the reference solver / reference port impedance.",
      "numpy linear algebra; equivalence judged with the reference solver on the extracted result",
      "explicit-state BFS/DFS over real transformer calls with a reference model of each transition",
      "DESIGN.md section 4 C16")
claim("C07", "model_checking",
      "Every component constructor with its parameter palette (including 0, infinity, w=0) is translated at every analysis frequency of an alphabet placed relative to the component's own frequency and both resolutions, in every list position among bystanders drawn from every other kind and with every ground placement; the resulting network is compared branch by branch (identity, terminal order, immittance, source phasor, off-frequency short/open, reference node) with a reference translation, and transform() with the list of single transformations.",
      "float cos/sin; reference closed-form harmonics (validated against quadrature by C08); parameter palettes",
      "bounded-exhaustive enumeration of constructor x parameter x frequency x context on the implementation against a reference model",
      "DESIGN.md section 4 C07")
claim("C02", "model_checking",
      "Every circuit of the listed topology levels x component-kind assignments (all passive kinds, dc/ac/complex sources, ideal and lossy) x orientation is analysed at every frequency of an alphabet placed on, just inside, just outside and away from the source frequencies, as peak phasors, RMS phasors and DC solution, and compared with an exact-rational phasor reference (well-posedness decided exactly per frequency).",
      "numpy linear algebra; float cos/sin; palettes; ComplexSolution's fixed default resolution",
      "bounded-exhaustive enumeration of circuits x frequencies on the implementation against an exact reference model",
      "DESIGN.md section 4 C02")
claim("C08", "model_checking",
      "Every wave type x amplitude (either sign) x phase (several turns) x offset x period of the palettes and every harmonic order 0..N is evaluated: the closed-form amplitude/phase are compared with Gauss-Legendre quadrature of the library's own time function split at its breakpoints; a/b/c consistency, conjugate symmetry, Bessel/Parseval with a total-variation tail bound, lookup by name and pointwise agreement with a reference waveform on both sides of every breakpoint are judged for every configuration.",
      "quadrature error < 1e-12; palettes for the continuous parameters",
      "bounded-exhaustive enumeration of waveform configurations x harmonic orders on the implementation",
      "DESIGN.md section 4 C08")
claim("C09", "model_checking",
      "Every base circuit x every mix of one to three sources from an alphabet that produces disjoint, bit-identical and within-resolution-only frequency coincidences x every w_max of the palette is analysed: the frequency list, every spectral line (against the exact phasor reference), the two-sided mirror, the time functions on a grid of instants, Kirchhoff's current law at every instant, superposition of the sources and reconstruction of an ideal periodic source's own waveform are judged for each.",
      "numpy linear algebra; reference harmonics; library default resolution; w_max values whose harmonic inclusion depends on binary rounding are excluded",
      "bounded-exhaustive enumeration of source mixes x w_max on the implementation against an exact reference and two-run relations",
      "DESIGN.md section 4 C09")
claim("C10", "model_checking",
      "Every RLC + ideal-source circuit of the listed topology levels x kind assignments (1..3 reactive elements, 1..2 sources) x orientation x id scheme (all id permutations at the small levels; ascending, descending and interleaved names above) that is non-degenerate (exact characteristic polynomial) has its model compared, for every source column and every output (node potentials, element voltages and currents, states), with the phasor response to that source alone at ten frequencies (more than 2n+2, which identifies the rational functions); state dimension, published source order and DC gain versus DCSolution are judged too.",
      "numpy linear algebra; ground placement rotates with the enumeration index; palettes",
      "bounded-exhaustive enumeration on the implementation with an exact pencil reference (transfer-function identification)",
      "DESIGN.md section 4 C10")
claim("C11", "model_checking",
      "For every non-degenerate circuit of the C10 space (prime and decades palettes) the real state matrix is tested for W*A+A^T*W <= 0 and eigenvalues in the closed left half plane; for every non-degenerate class of the small levels the real transient simulation is run for every pulse shape and the stored energy from the library's own capacitor voltages and inductor currents must not grow at any sample after the inputs returned to zero.",
      "numpy eigenvalues; lsim exact for piecewise-linear inputs",
      "bounded-exhaustive enumeration on the implementation with an invariant (Lyapunov inequality, energy monotonicity) on every state",
      "DESIGN.md section 4 C11")
claim("C12", "model_checking",
      "For every non-degenerate circuit of the listed levels x orientation x id scheme the real TransientSolution is run for every combination of input shapes on a grid resolving the fastest time constant; every node and element is read at every sample and judged: start from rest, KCL at every node, potential differences, Ohm's law and source constraints, integrated capacitor/inductor laws, agreement with the exact first-order-hold response (30-digit propagator) of the model after that model has been identified with the exact transfer function, settling to the DC solution and to the phasor steady state.",
      "mpmath expm; lsim; model identification at ten frequencies; sampled sinusoid tolerance 1e-3",
      "bounded-exhaustive enumeration of circuits x input-shape combinations on the implementation with a per-sample oracle",
      "DESIGN.md section 4 C12")
claim("C18", "model_checking",
      "Every decimal mantissa of up to 2 digits (3 on the main tables; thorough 3 everywhere and 4 on the main tables) times every power of ten 1e-15..1e15, together with its binary64 neighbours, its p-digit rounding midpoints and their neighbours, both signs, precisions 1..6 and every prefix table used by the display helpers is rendered and parsed back by a reference parser: accuracy to half a unit of the p-th digit, sign, engineering exponent, mantissa range and saturation are judged on each; complex values in all four quadrants (Cartesian, compact, polar, degrees) and every Display.print_* helper likewise.",
      "1e-9 relative slack on the half unit for binary neighbours of decimal ties; values between grid points not examined",
      "bounded-exhaustive enumeration of values x precisions x configurations on the implementation with a reference parser",
      "DESIGN.md section 4 C18")
claim("C17", "model_checking",
      "Explicit exploration of operation histories on shared description objects: every kind of the network loader table x complex notation x value palette x position in a 1..3-entry description and every kind of the circuit loader table, each followed by every history of length <= 3 of load/convert operations on that one object; every nested document of depth <= 3 over {dict, list, list of dicts} with complex/float/string leaves through dictify/undictify, JSON and YAML serialisation and real temporary files, applied up to three times to the same object. Every step is compared with the same operation on a pristine deep copy, with the exact expected element/document, and the object with its snapshot.",
      "python json/yaml; float repr round trip",
      "explicit-state exploration of operation histories (depth 3) over real loader calls with a deep-snapshot and isolation oracle",
      "DESIGN.md section 4 C17")
claim("C19", "fault_enumeration",
      "Exhaustive single-fault injection: every valid base description (networks, circuits, component constructor calls, network-loader and circuit-loader dictionaries, a declarative schematic) is first accepted and checked to be stored unaltered, then given exactly one fault of each class of the statement at every position (duplicate id at every pair, foreign reference node, second ground at every insertion point, each sign-checked parameter negative with three magnitudes, unknown type, unknown waveform in lookup and in every analysis, each required field missing) which must raise, plus boundary twins (exactly 0) which must be accepted, plus unknown element/node queries against all six solution kinds.",
      "exception types recorded, not constrained; sign rules anchored at constructors/loaders, reference rule at Network, ground/duplicate rules at Circuit",
      "exhaustive fault enumeration (fault class x position x value) on the real constructors, loaders and solutions",
      "DESIGN.md section 4 C19")
claim("C20", "model_checking",
      "Explicit-state search over real calls: the state is a fingerprint of every mutable attribute of every loaded library module (function defaults and closure cells, class dictionaries, module tables) plus a pool of shared argument objects; from the pristine state (a freshly forked process) every one of 42 public operations, every two-step history over the whole alphabet and every three-step history over the 20 operations that receive shared mutable arguments is executed; each step's result must equal the operation's result in isolation and the fingerprint must stay the pristine one (closure: one state with self-loops covers histories of any length).",
      "fingerprint completeness for Python-level state; numpy/scipy C-level state trusted",
      "explicit-state exploration of call histories (depth 3) on the implementation with state fingerprinting and an isolation oracle",
      "DESIGN.md section 4 C20")
claim("C03", "model_checking",
      "For every (topology, kinds) class of the listed levels the canonical description is analysed once and every element of the explored transformation subgroup (node renamings, element renamings, listing orders, reversal subsets with negated source values, reference nodes; see the evidence for the exact product per level) is applied and analysed by the real code; potential differences, currents, powers and port impedances (network solver), phasor results (component circuits), state-space transfer functions at three frequencies for every source/output pair and transient waveforms must be the image of the canonical results under the same transformation.",
      "numpy accuracy; name palettes whose sort order interleaves element kinds; quick tier uses sub-products at 3 nodes/3 branches and above (complete products in the thorough tier)",
      "explicit exploration of a transformation group on the implementation with a two-run (metamorphic) oracle",
      "DESIGN.md section 4 C03")
claim("C05", "model_checking",
      "Every well-posed network of the listed levels (network solution), every well-posed component circuit of the listed levels at the source frequencies, 0 and an unrelated frequency in RMS, peak and DC mode, every base circuit x source mix of the C09 alphabet at 25 instants (time domain) and every non-degenerate small RLC circuit x input shape at every sample (transient) is solved by the real code; on the library's own separately queried V, I and P: complex powers sum to zero in the stated convention, resistor power is real, non-negative and |I|^2 R, inductor/capacitor power is purely reactive with the right sign, and the reported power equals V*conj(I), half of it, V*I or v(t)*i(t) according to the mode.",
      "numpy accuracy; powers compared on the natural scale of each solution",
      "bounded-exhaustive enumeration on the implementation with invariants on every solution",
      "DESIGN.md section 4 C05")
claim("C13", "model_checking",
      "Explicit exploration of drawing programs built with the real Schematic/Elements classes: every filling of the 2x2 lattice edges with wires, resistors and DC sources (both directions, both reversal flags) with several ground positions in several insertion orders, every 3x2-lattice drawing with up to three items (including wires spanning two cells and a node label), every symbol kind of the statement in both directions, all four rotations, both reversal flags and degree/sine options in two contexts, and for every ground-at-origin drawing the metamorphic generators (rotations, translations incl. a rounding boundary, drawing units, wire splitting, chained placement, another hash seed). Each translation is compared with a union-find reference (bijection on node classes, labels and ground, component kinds and values, electrical equality of sources) and its solution with the reference solution.",
      "schemdraw geometry; drawings with two names on one node are not driven; at/to placement is not driven (plain schemdraw source symbols ignore .to())",
      "explicit-state exploration of placement programs on the implementation with a union-find reference model",
      "DESIGN.md section 4 C13")
claim("C15", "model_checking",
      "Explicit exploration on the real code: (1) every filling of the 2x2 lattice with persistable symbols and every persistable symbol kind (both directions, both reversal flags, degree/sine options) is built, serialised to JSON and reloaded; the search follows reload-of-reload (at least three cycles, until the canonical translation repeats) and after every cycle components, values, terminal order, connectivity up to renaming, reference node and solution must equal the original's, whose own translation is first validated with the C13 reference; (2) every declarative list of the stated family (every direction, place_after option and length) and every kind of the handler table is built by create_schematic and compared with the union-find reference of the equivalent placement program; the input dictionary must be unchanged.",
      "schemdraw geometry; JSON only (the statement does not cover YAML)",
      "explicit-state exploration of save/load cycles and declarative programs on the implementation with a reference model",
      "DESIGN.md section 4 C15")
claim("C14", "model_checking",
      "Every drawing of the pool (every symbol kind in a loop or divider context, both directions, both reversal flags, plus a two-mesh drawing) x every solution kind and display option (real precision 1..5; complex and single-frequency complex with precision x Cartesian/polar x radians/degrees; time-domain steady state with sine reference x degrees x hertz) x every named element x voltage/current/power x both annotation directions and every labelled node for potentials: the text of every label produced by the real draw_* functions, and by create_schematic's solution section, is parsed by a reference parser and compared with the quantity from the library's own solution of the translated circuit to half a unit of the last displayed digit, negated exactly for reverse annotations; sinusoid labels are read as the function of time they spell out.",
      "sinusoid amplitudes are RMS magnitudes of the default phasor solution; C18 accuracy rules",
      "bounded-exhaustive enumeration of drawings x solution kinds x display options x labels on the implementation with a reference parser",
      "DESIGN.md section 4 C14")
