#!/bin/sh
# usage: tools/try_mutant.sh <name> <worktree> <check ids...>
# Confirms a sub-agent's seeded change (tests still pass, demo fails with / passes without it) in its scratch
# worktree, stores it under /verif/seeded/<name>/, applies it to /repo, runs the given checks, reverts /repo.
NAME="$1"; WT="$2"; shift 2
V=/verif
D=$V/seeded/$NAME
mkdir -p "$D"
cd "$WT" || exit 2
git diff -- src > "$D/patch.diff"
cp demo.py "$D/demo.py" 2>/dev/null
cp NOTES.md "$D/NOTES.md" 2>/dev/null
[ -s "$D/patch.diff" ] || { echo "EMPTY PATCH"; exit 2; }
echo "== demo with change"; PYTHONPATH="$WT/src" MPLBACKEND=Agg /venv/bin/python "$WT/demo.py" > "$D/demo_with.log" 2>&1; RC_WITH=$?; tail -2 "$D/demo_with.log"
# (git stash is shared between all worktrees of a repository: reverse-apply the patch instead)
git apply -R "$D/patch.diff"
echo "== demo without change"; PYTHONPATH="$WT/src" MPLBACKEND=Agg /venv/bin/python "$WT/demo.py" > "$D/demo_without.log" 2>&1; RC_WITHOUT=$?; tail -2 "$D/demo_without.log"
git apply "$D/patch.diff"
echo "== tests with change"; TESTS=$($V/tools/repo_tests.sh "$WT" 1); echo "$TESTS"
cd /repo
if ! git apply --check "$D/patch.diff" 2>/dev/null; then echo "PATCH DOES NOT APPLY TO /repo HEAD"; APPLY=fail; else APPLY=ok; fi
RESULTS=""
if [ "$APPLY" = ok ]; then
  git apply "$D/patch.diff"
  for id in "$@"; do
    out=$(cd $V && ./check $id --tier quick 2>&1); rc=$?
    first=$(echo "$out" | grep -m1 -E '^  \[' )
    echo "check $id rc=$rc $first"
    RESULTS="$RESULTS $id:rc=$rc"
    echo "$out" | tail -15 > "$D/check_$id.log"
  done
  git checkout -- . ; git status --short | head -3
fi
python3 - "$D" "$NAME" "$RC_WITH" "$RC_WITHOUT" "$TESTS" "$APPLY" "$RESULTS" <<'PY'
import json,sys,os
d,name,rw,rwo,tests,apply_,results=sys.argv[1:8]
meta_p=os.path.join(d,'meta.json')
meta=json.load(open(meta_p)) if os.path.exists(meta_p) else {}
meta.update({"name":name,"demo_exit_with_change":int(rw),"demo_exit_without_change":int(rwo),"repo_tests_with_change":tests.strip(),
 "applies_to_repo_head":apply_,"checks_run_quick":{r.split(':')[0]:r.split(':')[1] for r in results.split()}})
json.dump(meta,open(meta_p,'w'),indent=1)
print(json.dumps(meta))
PY
