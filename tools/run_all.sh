#!/bin/sh
# runs every claimed check's quick (or $1) tier; prints one line per check
TIER="${1:-quick}"
cd "$(dirname "$0")/.."
fail=0
for id in $(python3 -c "import json;print(' '.join(c['property_id'] for c in json.load(open('MANIFEST.json'))['checks']))"); do
  start=$(date +%s)
  out=$(./check $id --tier $TIER 2>&1); rc=$?
  end=$(date +%s)
  echo "$id rc=$rc $((end-start))s $(echo "$out" | grep -cE '^VIOLATION') violation-lines $(echo "$out" | grep -E 'KNOWN-FINDING' | wc -l) known"
  [ $rc -ne 0 ] && { fail=1; echo "$out" | tail -5; }
done
exit $fail
