"""C18 - displayed numbers are accurate to the stated precision (shape S)."""
import itertools
import math
from fractions import Fraction as F

from mc.ref import numformat as nf
from mc.runner import new_result, bump, fp, add_violation

ID = "C18"
LEVEL = "model_checking"
RULE = ("every decimal mantissa of up to d digits (d=2 for all precisions and prefix tables, d=3 for precisions 2..4 on the "
        "two main tables; thorough: d=3 everywhere, d=4 on the main tables) x every power of ten 1e-15..1e15 x {the value, its "
        "two binary64 neighbours, the two p-digit rounding midpoints and their neighbours} x sign x precision 1..6 x prefix "
        "configuration {none, default table, each table used by the display helpers}; complex: four quadrants x a 12-value "
        "magnitude palette squared x Cartesian/polar/degree x precision; every Display.print_* helper on a value palette; "
        "each rendering is parsed back by a reference parser and compared with the exact binary value; states = distinct "
        "(value, precision, configuration) inputs, transitions = renderings judged; non-trivial = rendering of a non-zero value"
        ' Additions: render / update the object / render again over 96 states x 96 states.')
ASSUMPTIONS = ["a relative slack of 1e-9 on the half unit absorbs binary64 neighbours of decimal ties (half-to-even on the scaled float)",
               "random binary64 values between the grid points are not examined (sampling is a different family)"]
EXPLANATION = "direct exploration of ScientificFloat / ScientificComplex / Display helpers with a reference parser"

TABLES = {
    "none": None,
    "default": nf.DEFAULT_PREFIXES,
    "umk": {-6: 'u', -3: 'm', 3: 'k'},
    "mkMG": {-3: 'm', 3: 'k', 6: 'M', 9: 'G'},
    "pnum": {-12: 'p', -9: 'n', -6: 'μ', -3: 'm'},
    "num": {-9: 'n', -6: 'μ', -3: 'm'},
    "mkMGT": {-3: 'm', 3: 'k', 6: 'M', 9: 'G', 12: 'T'},
}
EXPS = list(range(-15, 16))


def budget_s(tier):
    return 1500 if tier == "quick" else 5400


def shards(tier):
    out = []
    T = tier == "thorough"
    for e in EXPS:
        for tb in TABLES:
            out.append(("float d<=2", ("f", 1, 99, e, tb, (1, 2, 3, 4, 5, 6))))
    for e in EXPS:
        for tb in (TABLES if T else ("none", "umk")):
            for lo in range(100, 1000, 300):
                out.append(("float d=3", ("f", lo, min(999, lo + 299), e, tb, (1, 2, 3, 4, 5, 6) if T else (2, 3, 4))))
    if T:
        for e in EXPS:
            for tb in ("none", "umk"):
                for lo in range(1000, 10000, 1000):
                    out.append(("float d=4", ("f", lo, lo + 999, e, tb, (3, 4, 5))))
    for q in range(4):
        for mode in ("cart", "cart_compact", "polar", "polar_deg"):
            out.append(("complex", ("c", q, mode)))
    out.append(("display helpers", ("d",)))
    for k in range(len(UPDATE_VALUES)):
        out.append(("render, update the object, render again", ("u", k)))
    return out


# a ScientificFloat object is mutable: rendered, given another value / precision / prefix table, and rendered again it
# shows what a fresh object with those fields shows
UPDATE_VALUES = [4.7e3, 3.3e-3, 1.23456789e-4, 2.2e6, -9.995, 0.99996, 5e-13, -7.77e13]


def run_updates(k, res):
    from CircuitCalculator.Utils import ScientificFloat
    states = [(v, p, tb) for v in UPDATE_VALUES for p in (1, 3, 6) for tb in ("none", "default", "umk", "pnum")]
    v1 = UPDATE_VALUES[k]
    for (a, p1, tb1) in [s_ for s_ in states if s_[0] == v1]:
        for (b, p2, tb2) in states:
            res["evals"] += 1
            res["transitions"] += 1
            bump(res["hits"], "render_update_render")
            case = {"what": "update", "first": [float(a).hex(), p1, tb1], "second": [float(b).hex(), p2, tb2]}

            def make(v, p, tb):
                if TABLES[tb] is None:
                    return ScientificFloat(v, "V", precision=p)
                return ScientificFloat(v, "V", precision=p, use_exp_prefix=True, exp_prefixes=dict(TABLES[tb]))
            try:
                obj = make(a, p1, tb1)
                first = str(obj)
                obj.value, obj.precision = b, p2
                obj.use_exp_prefix = TABLES[tb2] is not None
                if TABLES[tb2] is not None:
                    obj.exp_prefixes = dict(TABLES[tb2])
                second = str(obj)
                fresh = str(make(b, p2, tb2)) if TABLES[tb2] is not None or TABLES[tb1] is None else None
                if fresh is None:
                    # (switching the prefixes off keeps the object's old table as an unused field: compare with such an object)
                    o2 = make(b, p2, tb1)
                    o2.use_exp_prefix = False
                    fresh = str(o2)
            except Exception as e:
                add_violation(res, "accuracy_half_unit", case, "two renderings", "%s: %s" % (type(e).__name__, e), "render / update / render raised", kind="exception:" + type(e).__name__)
                continue
            res["fps"].add(hash((first, second)) & 0xFFFFFFFFFF)
            if second != fresh:
                add_violation(res, "accuracy_half_unit", case, fresh, second, "an object rendered once and then given other fields does not render like a fresh object with those fields")


def variants(v, p):
    """value, binary neighbours, p-digit rounding midpoints and their neighbours (positive floats)"""
    out = [v, math.nextafter(v, math.inf), math.nextafter(v, 0.0)]
    hu, _ = nf.half_unit(F(v), p)
    for m in (float(F(v) + hu), float(F(v) - hu)):
        if m > 0:
            out += [m, math.nextafter(m, math.inf), math.nextafter(m, 0.0)]
    return out


def run_shard(desc):
    res = new_result()
    if desc[0] == "f":
        _, lo, hi, e, tb, precs = desc
        keys = set()
        for m in range(lo, hi + 1):
            if m % 10 == 0 and m >= 10:
                continue       # same value as a shorter mantissa at another exponent
            v0 = float(F(m) * F(10) ** e)
            for p in precs:
                for v in variants(v0, p):
                    for sgn in (1, -1):
                        res["evals"] += 1
                        judge_float(sgn * v, p, tb, res, keys)
    elif desc[0] == "c":
        run_complex(desc[1], desc[2], res)
    elif desc[0] == "u":
        run_updates(desc[1], res)
    else:
        run_display(res)
    return res


def replay(case):
    res = new_result()
    if case["what"] == "update":
        k = UPDATE_VALUES.index(float.fromhex(case["first"][0]))
        run_updates(k, res)
        return [v for v in res["violations"] if v["case"]["first"] == case["first"] and v["case"]["second"] == case["second"]]
    if case["what"] == "float":
        judge_float(float.fromhex(case["hex"]), case["p"], case["table"], res, set())
    elif case["what"] == "complex":
        judge_complex(complex(float.fromhex(case["re"]), float.fromhex(case["im"])), case["p"], case["mode"], case["table"], res)
    else:
        judge_display(case["helper"], case["args"], res)
    return res["violations"]


def render_float(v, p, tb, unit="V"):
    from CircuitCalculator.Utils import ScientificFloat
    if TABLES[tb] is None:
        return str(ScientificFloat(v, unit, precision=p))
    return str(ScientificFloat(v, unit, precision=p, use_exp_prefix=True, exp_prefixes=dict(TABLES[tb])))


def check_number(res, case, text_parsed, v, p, tb, sub_prefix=""):
    """judge one parsed real number against the exact binary value v"""
    tbl = TABLES[tb]
    fv = F(v)
    max_exp = max(tbl) if tbl else 16
    if text_parsed["inf"]:
        bump(res["hits"], sub_prefix + "infinity_only_beyond_range")
        if abs(fv) < F(10) ** max_exp or (text_parsed["sign"] > 0) != (v > 0):
            add_violation(res, sub_prefix + "infinity_only_beyond_range", case, "finite rendering", "infinity", "value inside the representable range rendered as infinity (or wrong sign of infinity)")
        return
    hu, lead = nf.half_unit(fv, p)
    bump(res["hits"], sub_prefix + "accuracy_half_unit")
    err = abs(text_parsed["value"] - fv)
    if err > hu * (1 + F(1, 10 ** 9)):
        add_violation(res, sub_prefix + "accuracy_half_unit", case, "within %s of %r" % (float(hu), v), float(text_parsed["value"]),
                      "rendered number is off by %.3g half-units of the %d-th significant digit" % (float(err / hu), p),
                      kind="carry_into_new_power_of_1000" if carries_1000(fv, p) else "wrong_value")
        return
    bump(res["hits"], sub_prefix + "sign")
    if (text_parsed["value"] < 0) != (v < 0) and text_parsed["value"] != 0:
        add_violation(res, sub_prefix + "sign", case, "sign of %r" % v, float(text_parsed["value"]), "wrong sign")
    bump(res["hits"], sub_prefix + "engineering_exponent")
    if text_parsed["exp10"] % 3 != 0:
        add_violation(res, sub_prefix + "engineering_exponent", case, "multiple of 3", text_parsed["exp10"], "decimal exponent / prefix is not a multiple of three")
    bump(res["hits"], sub_prefix + "mantissa_range")
    if not (F(1) <= text_parsed["mantissa"] <= F(1000)):
        add_violation(res, sub_prefix + "mantissa_range", case, "1 <= mantissa <= 1000", text_parsed["mantissa_str"], "mantissa outside [1, 1000]",
                      kind="carry_into_new_power_of_1000" if carries_1000(fv, p) else "wrong_value")


def carries_1000(fv, p):
    """True iff rounding |value| to p significant digits carries into a new power of 1000"""
    hu, lead = nf.half_unit(fv, p)
    unit = 2 * hu
    r = (abs(fv) / unit + F(1, 2)).__floor__() * unit
    _, lead2 = nf.half_unit(r, p)
    return lead2 != lead and lead2 % 3 == 0


def judge_float(v, p, tb, res, keys):
    case = {"what": "float", "hex": float(v).hex(), "value": repr(v), "p": p, "table": tb}
    k = (v, p, tb)
    if k not in keys:
        keys.add(k)
        res["states"] += 1
        res["nontrivial"] += 1
    res["transitions"] += 1
    try:
        text = render_float(v, p, tb)
        parsed = nf.parse_number(text, "V", TABLES[tb])
    except Exception as e:
        add_violation(res, "accuracy_half_unit", case, "a parsable number", "%s: %s" % (type(e).__name__, e), "rendering raised or does not parse", kind="exception:" + type(e).__name__)
        return
    case["text"] = text
    res["fps"].add(hash(text) & 0xFFFFFFFFFF)
    if len(res["samples"]) < 1:
        res["samples"].append({"value": repr(v), "precision": p, "table": tb, "text": text})
    check_number(res, case, parsed, v, p, tb)


# ------------------------------------------------------------------ complex
MAGS = [1.0, 2.5, 999.5, 0.001234, 47000.0, 1e-9, 3.3e6, 0.5, 12.0, 0.0999, 1e5, 7.77e-5]


def run_complex(q, mode, res):
    sr, si = [(1, 1), (-1, 1), (-1, -1), (1, -1)][q]
    for a, b in itertools.product(MAGS, repeat=2):
        for p in (1, 2, 3, 4, 5, 6):
            for tb in ("none", "umk", "mkMG"):
                res["evals"] += 1
                judge_complex(complex(sr * a, si * b), p, mode, tb, res)
    # purely real / imaginary values
    for a in MAGS:
        for p in (2, 3):
            for tb in ("none", "umk"):
                res["evals"] += 2
                judge_complex(complex(sr * a, 0.0), p, mode, tb, res)
                judge_complex(complex(0.0, si * a), p, mode, tb, res)


def split_cartesian(text):
    """'[-]A[(+|-)jB]' or '[-]jB' (compact or spaced) -> (re_text or None, re_sign, im_text or None, im_sign)"""
    s = text.replace(" ", "")
    if "j" not in s:
        neg = s.startswith("-")
        return (s[1:] if neg else s), (-1 if neg else 1), None, 1
    head, tail = s.split("j", 1)
    if head in ("", "-", "+"):
        return None, 1, tail, (-1 if head == "-" else 1)
    isign = -1 if head.endswith("-") else 1
    if not (head.endswith("-") or head.endswith("+")):
        raise ValueError("no sign before j in %r" % text)
    re_ = head[:-1]
    neg = re_.startswith("-")
    return (re_[1:] if neg else re_), (-1 if neg else 1), tail, isign


def judge_complex(z, p, mode, tb, res):
    from CircuitCalculator.Utils import ScientificComplex
    case = {"what": "complex", "re": z.real.hex(), "im": z.imag.hex(), "value": repr(z), "p": p, "mode": mode, "table": tb}
    res["states"] += 1
    res["transitions"] += 1
    res["nontrivial"] += 1
    tbl = TABLES[tb]
    kw = dict(value=z, unit="V", precision=p, polar=mode.startswith("polar"), deg=(mode == "polar_deg"), compact=(mode == "cart_compact"))
    if tbl is not None:
        kw.update(use_exp_prefix=True, exp_prefixes=dict(tbl))
    try:
        text = str(ScientificComplex(**kw))
    except Exception as e:
        add_violation(res, "complex_parts", case, "text", "%s: %s" % (type(e).__name__, e), "rendering raised", kind="exception:" + type(e).__name__)
        return
    case["text"] = text
    res["fps"].add(hash(text) & 0xFFFFFFFFFF)
    min_exp = min(tbl) if tbl else -16
    try:
        if mode.startswith("polar"):
            bump(res["hits"], "polar_angle")
            if "∠" in text:
                mag_t, ang_t = text.split("∠")
                ang = float(ang_t.rstrip("°"))
                if (mode == "polar_deg") != ang_t.endswith("°"):
                    add_violation(res, "polar_angle", case, "degree sign iff degrees", text, "degree marker wrong")
            else:
                mag_t, ang = text, None
            import cmath
            true_ang = math.degrees(cmath.phase(z)) if mode == "polar_deg" else cmath.phase(z)
            if ang is None:
                lim = 10 ** -2 if mode == "polar_deg" else 10 ** -5
                if abs(true_ang) > lim * (1 + 1e-9):
                    add_violation(res, "polar_angle", case, true_ang, "angle omitted", "angle omitted although it is not negligible")
            else:
                hu = 0.5 * (10 ** -2 if mode == "polar_deg" else 10 ** -4)
                if abs(ang - true_ang) > hu * (1 + 1e-6) + 1e-12:
                    add_violation(res, "polar_angle", case, true_ang, ang, "angle differs from the true angle by more than half a unit of its last digit")
            parsed = nf.parse_number(mag_t, "V", tbl)
            check_number(res, case, parsed, abs(z), p, tb, "complex:")
            return
        re_t, re_s, im_t, im_s = split_cartesian(text)
        bump(res["hits"], "complex_parts")
        for part, txt, sgn, name in ((z.real, re_t, re_s, "real"), (z.imag, im_t, im_s, "imaginary")):
            if txt is None:
                # a part may be suppressed only if it is negligible for the configured table
                if part != 0 and abs(F(part)) >= F(10) ** (min_exp + p):
                    add_violation(res, "complex_parts", case, part, "suppressed", "%s part suppressed although it is representable" % name)
                continue
            parsed = nf.parse_number(txt, "V", tbl)
            if parsed["inf"]:
                check_number(res, case, parsed, abs(part) if part else 1e300, p, tb, "complex:")
                continue
            if parsed.get("explicit_minus"):
                add_violation(res, "complex_parts", case, "magnitude with separate sign", txt, "part carries its own minus sign")
                continue
            if part == 0:
                if parsed["value"] != 0:
                    add_violation(res, "complex_parts", case, 0, float(parsed["value"]), "%s part is zero but rendered non-zero" % name)
                continue
            parsed = dict(parsed, value=sgn * parsed["value"])
            check_number(res, case, parsed, part, p, tb, "complex:")
    except ValueError as e:
        add_violation(res, "complex_parts", case, "parsable text", "%s (%s)" % (text, e), "complex rendering does not parse", kind="unparsable")


# ------------------------------------------------------------------ Display helpers
DVALS = [1.0, -2.5, 999.5, 0.001234, 47000.0, 3.3e-6, 0.5, 120.0, 1e-9, 2.2e6]


def run_display(res):
    for v in DVALS:
        for p in (1, 2, 3, 4, 5):
            for helper in ("print_real", "print_abs", "print_resistance", "print_conductance", "print_capacitance", "print_inductance", "print_active_power"):
                res["evals"] += 1
                judge_display(helper, {"v": v, "p": p}, res)
            for im in (0.0, 0.75 * abs(v), -3 * abs(v)):
                for polar, deg in ((False, False), (True, False), (True, True)):
                    res["evals"] += 1
                    judge_display("print_complex", {"v": v, "im": im, "p": p, "polar": polar, "deg": deg}, res)
                res["evals"] += 1
                judge_display("print_impedance", {"v": abs(v), "im": im, "p": p}, res)


def judge_display(helper, a, res):
    from CircuitCalculator.SimpleCircuit import Display
    case = {"what": "display", "helper": helper, "args": a}
    res["states"] += 1
    res["transitions"] += 1
    res["nontrivial"] += 1
    v, p = a["v"], a["p"]
    bump(res["hits"], "display:" + helper)
    try:
        if helper == "print_real":
            text, val, tb, unit = Display.print_real(complex(v, 1.0), "V", p), v, "umk", "V"
        elif helper == "print_abs":
            text, val, tb, unit = Display.print_abs(complex(v, 0.0), "A", p), abs(v), "umk", "A"
        elif helper == "print_resistance":
            text, val, tb, unit = Display.print_resistance(abs(v), p), abs(v), "mkMG", "Ω"
        elif helper == "print_conductance":
            text, val, tb, unit = Display.print_conductance(abs(v), p), abs(v), "mkMG", "S"
        elif helper == "print_capacitance":
            text, val, tb, unit = Display.print_capacitance(abs(v), p), abs(v), "pnum", "F"
        elif helper == "print_inductance":
            text, val, tb, unit = Display.print_inductance(abs(v), p), abs(v), "num", "H"
        elif helper == "print_active_power":
            text = Display.print_active_power(v, p)
            arrow = text[-1]
            if arrow not in "↓↑" or (arrow == "↓") != (v > 0):
                add_violation(res, "display_helpers", case, "↓ for absorbed (positive) power", text, "power direction marker wrong")
                return
            text, val, tb, unit = text[:-1], abs(v), "default", "W"
        elif helper in ("print_complex", "print_impedance"):
            z = complex(v, a["im"])
            if helper == "print_complex":
                text = Display.print_complex(z, "V", p, polar=a["polar"], deg=a["deg"])
                mode = "polar_deg" if a["deg"] and a["polar"] else ("polar" if a["polar"] else "cart_compact")
                ref = str_complex(z, p, mode, "umk", "V", compact=True)
            else:
                text = Display.print_impedance(z, p)
                ref = str_complex(z, p, "cart", "mkMG", "Ω", compact=False)
            # the helper must be the generic complex rendering (judged by the complex sub-checks) with its table and unit
            if text != ref:
                add_violation(res, "display_helpers", case, ref, text, "helper output differs from the generic rendering with its own table/unit")
            res["fps"].add(hash(text) & 0xFFFFFFFFFF)
            return
        else:
            raise ValueError(helper)
    except Exception as e:
        add_violation(res, "display_helpers", case, "text", "%s: %s" % (type(e).__name__, e), "helper raised", kind="exception:" + type(e).__name__)
        return
    case["text"] = text
    res["fps"].add(hash(text) & 0xFFFFFFFFFF)
    try:
        # complex-typed helpers (resistance/conductance) print a real number without sign decoration
        parsed = nf.parse_number(text.replace(" ", ""), unit, TABLES[tb])
    except ValueError as e:
        add_violation(res, "display_helpers", case, "parsable text", "%s (%s)" % (text, e), "helper output does not parse", kind="unparsable")
        return
    check_number(res, case, parsed, val, p, tb, "display:")


def str_complex(z, p, mode, tb, unit, compact):
    from CircuitCalculator.Utils import ScientificComplex
    return str(ScientificComplex(value=z, unit=unit, precision=p, polar=mode.startswith("polar"), deg=(mode == "polar_deg"),
                                 use_exp_prefix=True, exp_prefixes=dict(TABLES[tb]), compact=compact))


def vacuity(agg, tier):
    out = []
    for k in ("accuracy_half_unit", "sign", "engineering_exponent", "mantissa_range", "complex_parts", "polar_angle", "complex:accuracy_half_unit", "display:accuracy_half_unit"):
        if agg["hits"].get(k, 0) == 0:
            out.append("sub-check %s never fired" % k)
    return out
