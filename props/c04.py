"""C04 - linearity and superposition of sources (shape S, relations between runs of the library)."""
import itertools

from mc import space as sp
from mc import adapt
from mc.ref import netlist as rn
from mc.runner import new_result, bump, fp, add_violation
from . import common as cm

ID = "C04"
LEVEL = "model_checking"
RULE = ("every well-posed network (exact decision per class) of the listed levels with at least one source x every "
        "orientation (branch ids ascending with the listing position for even-parity orientation masks, descending for odd) x every reference node x palette; for each: every scale factor in {2,-1,j,1/2+j,1e-3,4e9}, every subset "
        "of the source set kept active through the library's own zeroing operations with keep lists (all 2^k subsets, "
        "k<=4), and the all-off network; states = distinct networks judged, transitions = library solves judged; "
        "non-trivial = network with a non-zero solution"
        ' Additions: palettes eq, small, mixed; the other sources are also removed (passive_network(keep=[one])) and every surviving passive branch compared with the zeroing path.')
ASSUMPTIONS = ["numpy.linalg accuracy on the palettes", "the exact model is used only for the domain decision and the natural scale"]
EXPLANATION = "two-run relations on the real solver and the real source-zeroing transformers"
SCALES = [2, -1, 1j, 0.5 + 1j, 1e-3, 4e9]


def budget_s(tier):
    return 1800 if tier == "quick" else 7200


LEVELS_QUICK = [
    (2, 1, cm.KINDS7, ("real", "cplx"), ("plain", "odd")),
    (2, 2, cm.KINDS7, ("real", "cplx", "eq", "small", "mixed"), ("plain", "odd")),
    (2, 3, cm.KINDS7, ("cplx", "eq"), ("plain",)),
    (3, 2, cm.KINDS7, ("real", "cplx", "eq", "small", "mixed"), ("plain", "odd")),
    (3, 3, cm.KINDS7, ("cplx", "eq"), ("odd",)),
    (3, 4, cm.KINDS4, ("real",), ("plain",)),
]
LEVELS_THOROUGH = [
    (2, 1, cm.KINDS7, ("real", "cplx", "dec"), ("plain", "odd")),
    (2, 2, cm.KINDS7, ("real", "cplx", "dec", "eq", "small", "mixed"), ("plain", "odd")),
    (2, 3, cm.KINDS7, ("real", "cplx", "dec", "eq", "small", "mixed"), ("plain", "odd")),
    (3, 2, cm.KINDS7, ("real", "cplx", "dec", "eq", "small", "mixed"), ("plain", "odd")),
    (3, 3, cm.KINDS7, ("real", "cplx", "eq"), ("plain", "odd")),
    (3, 4, cm.KINDS7, ("cplx",), ("plain",)),
    (4, 3, cm.KINDS7, ("real",), ("odd",)),
    (4, 4, cm.KINDS4, ("real",), ("plain",)),
]


def shards(tier):
    out = []
    for (n, b, kinds, pals, labs) in (LEVELS_QUICK if tier == "quick" else LEVELS_THOROUGH):
        topos = sp.topologies(n, b)
        nk = len(kinds) ** b
        per = max(1, 500 // ((2 ** b) * len(pals) * len(labs) * n))
        for ti in range(len(topos)):
            for ch in sp.chunks(range(nk), per):
                out.append(("N(%d,%d)|K%d" % (n, b, len(kinds)), (n, b, ti, kinds, ch[0], ch[-1] + 1, pals, labs)))
    return out


def run_shard(desc):
    n, b, ti, kinds, k0, k1, pals, labs = desc
    res = new_result()
    topo = sp.topologies(n, b)[ti]
    allk = list(itertools.product(kinds, repeat=b))
    for kt in allk[k0:k1]:
        nsrc = sum(1 for k in kt if k in rn.SOURCES)
        for pal in pals:
            nvar = (2 ** b) * n * len(labs)
            res["evals"] += nvar
            if nsrc == 0:
                bump(res["skipped"], "no_source", nvar)
                continue
            if not cm.class_well_posed(topo, kt, pal):
                bump(res["skipped"], "ill_posed_class", nvar)
                continue
            for orient in range(2 ** b):
                for lab in labs:
                    labels = sp.LABELS_PLAIN[:n] if lab == "plain" else sp.LABELS_ODD[:n]
                    for ref_idx in range(n):
                        # branch ids ascend with the listing position for even-parity orientation masks and descend
                        # for odd ones, so listing order and alphabetical order of the sources disagree in half the cases
                        ids = sp.IDS_ASC[:b] if bin(orient).count("1") % 2 == 0 else list(reversed(sp.IDS_ASC[:b]))
                        nl = cm.build_netlist(topo, kt, orient, ref_idx, labels, pal, ids)
                        judge(nl, pal, res)
    return res


def replay(case):
    res = new_result()
    judge(case["netlist"], case.get("palette", "real"), res)
    return res["violations"]


def lib_solution(net, nl, zeroed=()):
    """potentials, voltages and NET currents (n1->n2) from the library's reported numbers.
    A linear source that was zeroed is a passive element and reports in passive direction."""
    from CircuitCalculator.Network.NodalAnalysis.bias_point_analysis import nodal_analysis_bias_point_solver
    sol = nodal_analysis_bias_point_solver(net)
    phi = {nd: complex(sol.get_potential(nd)) for nd in rn.nodes_of(nl)}
    V, I, P = {}, {}, {}
    for br in nl["branches"]:
        bid = br[3]
        V[bid] = complex(sol.get_voltage(bid))
        i = complex(sol.get_current(bid))
        if rn.reports_generator_direction(br) and bid not in zeroed:
            i = -i
        I[bid] = i
        P[bid] = complex(sol.get_power(bid))
    return phi, V, I, P


def scaled(nl, a):
    out = []
    for br in nl["branches"]:
        br = list(br)
        if br[2] in rn.SOURCES:
            p = list(br[4])
            v = rn.c(p[0]) * a
            p[0] = v
            br[4] = p
        out.append(br)
    return {"ref": nl["ref"], "branches": out}


def scaled_network(nl, a):
    """library network with every source value multiplied by the float/complex factor a"""
    from CircuitCalculator.Network import elements as elm
    from CircuitCalculator.Network.network import Network, Branch
    brs = []
    for br in nl["branches"]:
        kind, bid, p = br[2], br[3], br[4]
        if kind == "V":
            e = elm.voltage_source(bid, V=rn.c(p[0]) * a)
        elif kind == "I":
            e = elm.current_source(bid, I=rn.c(p[0]) * a)
        elif kind == "LV":
            e = elm.voltage_source(bid, V=rn.c(p[0]) * a, Z=rn.c(p[1]))
        elif kind == "LI":
            e = elm.current_source(bid, I=rn.c(p[0]) * a, Y=rn.c(p[1]))
        else:
            e = adapt.element(br)
        brs.append(Branch(br[0], br[1], e))
    return Network(brs, node_zero_label=nl["ref"])


def judge(nl, pal, res):
    from CircuitCalculator.Network import transformers as trf
    case = {"netlist": nl, "palette": pal}
    rtol = cm.rtol_for(pal)
    res["states"] += 1
    phi_ref, cur_ref = cm.float_tableau_solution(nl)
    s_phi, s_i = cm.scales(nl, phi_ref, cur_ref)
    tol_v, tol_i, tol_p = rtol * s_phi, rtol * s_i, rtol * s_phi * s_i
    try:
        net = adapt.network(nl)
        base = lib_solution(net, nl)
    except Exception as e:
        add_violation(res, "homogeneity", case, "solution", "%s: %s" % (type(e).__name__, e), "base solve raised", kind="exception:" + type(e).__name__)
        return
    res["transitions"] += 1
    if any(abs(v) > 1e-12 * s_phi for v in base[0].values()) or any(abs(v) > 1e-12 * s_i for v in base[2].values()):
        res["nontrivial"] += 1
    res["fps"].add(fp(*base[0].values(), *base[2].values()))
    if len(res["samples"]) < 1:
        res["samples"].append({"netlist": nl, "scales": [str(a) for a in SCALES]})
    # homogeneity and power scaling
    for a in SCALES:
        bump(res["hits"], "homogeneity")
        bump(res["hits"], "power_scaling")
        try:
            s = lib_solution(scaled_network(nl, a), nl)
        except Exception as e:
            add_violation(res, "homogeneity", dict(case, factor=str(a)), "solution", "%s: %s" % (type(e).__name__, e), "scaled solve raised", kind="exception:" + type(e).__name__)
            continue
        res["transitions"] += 1
        aa = abs(a)
        for name, got, ref_, tol in (("potential", s[0], base[0], tol_v), ("voltage", s[1], base[1], tol_v), ("current", s[2], base[2], tol_i)):
            for k in ref_:
                if abs(got[k] - a * ref_[k]) > tol * max(aa, 1e-3):
                    add_violation(res, "homogeneity", dict(case, factor=str(a)), a * ref_[k], got[k], "%s of %s does not scale by a" % (name, k))
                    break
        for k in base[3]:
            if abs(s[3][k] - aa * aa * base[3][k]) > tol_p * max(aa * aa, 1e-6):
                add_violation(res, "power_scaling", dict(case, factor=str(a)), aa * aa * base[3][k], s[3][k], "power of %s does not scale by |a|^2" % k)
                break
    # superposition over every subset of the source set
    srcs = [br for br in nl["branches"] if br[2] in rn.SOURCES]
    if len(srcs) > 4:
        bump(res["skipped"], "more_than_4_sources_superposition_only")
        return
    elem = {b.id: b.element for b in net.branches}
    sols = {}
    for r in range(0, len(srcs) + 1):
        for sub in itertools.combinations(range(len(srcs)), r):
            keep = [elem[srcs[k][3]] for k in sub]
            zeroed = {srcs[k][3] for k in range(len(srcs)) if k not in sub}
            try:
                part = trf.short_circuitify_voltage_sources(trf.open_circuitify_current_sources(net, keep=keep), keep=keep)
                sols[sub] = lib_solution(part, nl, zeroed=zeroed)
                res["transitions"] += 1
            except Exception as e:
                add_violation(res, "superposition_split", dict(case, keep=[srcs[k][3] for k in sub]), "solution", "%s: %s" % (type(e).__name__, e),
                              "zeroing/solve raised", kind="exception:" + type(e).__name__)
                return
    bump(res["hits"], "all_off_zero")
    z = sols[()]
    if any(abs(v) > 0 for v in z[0].values()) or any(abs(v) > 0 for v in z[2].values()):
        add_violation(res, "all_off_zero", case, 0, [z[0], z[2]], "network with all sources deactivated has a non-zero solution")
    full = tuple(range(len(srcs)))
    for sub in sols:
        if len(sub) < 1:
            continue
        bump(res["hits"], "superposition_split")
        for idx, (name, tol) in enumerate((("potential", tol_v), ("voltage", tol_v), ("current", tol_i))):
            bad = False
            for k in sols[sub][idx]:
                ssum = sum(sols[(j,)][idx][k] for j in sub)
                if abs(sols[sub][idx][k] - ssum) > tol * (1 + len(sub)):
                    add_violation(res, "superposition_split", dict(case, keep=[srcs[j][3] for j in sub]), ssum, sols[sub][idx][k],
                                  "%s of %s: response to the subset is not the sum of the single-source responses" % (name, k))
                    bad = True
                    break
            if bad:
                break
    # the other way of deactivating: remove the other sources altogether (ideal voltage sources contracted, ideal current
    # sources dropped) - every passive branch that survives carries the same single-source voltage and current
    from CircuitCalculator.Network.NodalAnalysis.bias_point_analysis import nodal_analysis_bias_point_solver
    for j in range(len(srcs)):
        if (j,) not in sols:
            continue
        try:
            part2 = trf.passive_network(net, keep=[elem[srcs[j][3]]])
            sol2 = nodal_analysis_bias_point_solver(part2)
            alive = {b.id for b in part2.branches}
        except Exception as e:
            bump(res["skipped"], "contracted_single_source_network:" + type(e).__name__)
            continue
        bump(res["hits"], "superposition_contracted")
        for br in nl["branches"]:
            if br[2] not in ("Z", "Y", "load") or br[3] not in alive:
                continue
            v2, i2 = complex(sol2.get_voltage(br[3])), complex(sol2.get_current(br[3]))
            if abs(v2 - sols[(j,)][1][br[3]]) > 2 * tol_v or abs(i2 - sols[(j,)][2][br[3]]) > 2 * tol_i:
                add_violation(res, "superposition_split", dict(case, keep=[srcs[j][3]], via="passive_network"), [sols[(j,)][1][br[3]], sols[(j,)][2][br[3]]], [v2, i2],
                              "voltage/current of %s with only %s active differ between zeroing the other sources and removing them" % (br[3], srcs[j][3]))
                break
    # the subset that keeps everything must reproduce the untouched network
    bump(res["hits"], "keep_all_is_identity")
    for idx, tol in ((0, tol_v), (1, tol_v), (2, tol_i)):
        for k in base[idx]:
            if abs(sols[full][idx][k] - base[idx][k]) > tol:
                add_violation(res, "superposition_split", dict(case, keep="all"), base[idx][k], sols[full][idx][k],
                              "keeping every source changed the solution at %s" % k)
                break


def vacuity(agg, tier):
    out = []
    for k in ("homogeneity", "power_scaling", "superposition_split", "all_off_zero"):
        if agg["hits"].get(k, 0) == 0:
            out.append("sub-check %s never fired" % k)
    if len(agg["fps"]) < 1000:
        out.append("only %d distinct outcomes" % len(agg["fps"]))
    return out
