"""C13 - schematic drawings are read as the netlist they depict (shape G: placement programs)."""
import cmath
import itertools
import json
import math
import os
import subprocess
import sys

import numpy as np

from mc import adapt
from mc.ref import drawing as rdw
from mc.ref import netlist as rn
from mc.runner import new_result, bump, fp, add_violation
from . import common as cm

ID = "C13"
LEVEL = "model_checking"
RULE = ("states are drawings = sets of placed items on a lattice (canonical key: the item set), reached by placement programs; "
        "(A) structure: every filling of the 4 edges of the 2x2 lattice with {nothing, wire, resistor in either direction, DC voltage "
        "source in either direction with either reversal flag} x ground positions (none, first and last touched point; thorough: every touched point), each built in canonical "
        "and reversed insertion order (and every adjacent swap for the ground-at-origin drawings), plus every 3x2-lattice drawing "
        "with <= 3 edge items incl. a wire spanning two cells and one node label (a word, and the numerals '2' and '3' that collide with automatic node numbers); (W) wire meshes: three fixed symbols, ground and label with every sequence (every insertion order) of up to 4 (thorough 5) wires out of 8 candidates that contain closed wire loops, a doubled wire and long wires drawn over two short ones; (B) kinds: every symbol kind of the statement x "
        "both placement directions x all four rotations x reversal flag x degree/sine options in two one-loop contexts; (C) "
        "metamorphic generators on every (A) drawing with the ground at the origin: rotations by 90/180/270 degrees, two "
        "translations (one on a rounding boundary), two drawing units (thorough: three each and a combined one), every wire split in two, chained "
        "placement, two further hash seeds (sub-process); each built drawing is translated by the real translator and compared "
        "with the union-find reference (bijection on node classes, labels, ground, components, electrical equality of sources) and, "
        "when well-posed, its DC / w=1 solution with the reference solution; states = distinct drawings, transitions = "
        "build+translate executions judged; non-trivial = drawing with at least one symbol"
        ' Additions: the same Schematic object read after every placement (read while drawing); bench values in the symbol-kind cases.')
ASSUMPTIONS = ["schemdraw geometry", "a drawing in which a label and the ground (or two labels) sit on the same node is not driven (the statement does not say which name wins)"]
EXPLANATION = "explicit exploration of drawing programs; each is built with the real Schematic/Elements classes and translated by the real circuit_translator"

PTS2 = [(0, 0), (1, 0), (0, 1), (1, 1)]
EDGES2 = [((0, 0), (1, 0)), ((1, 0), (1, 1)), ((0, 1), (1, 1)), ((0, 0), (0, 1))]
EDGES3 = [((0, 0), (1, 0)), ((1, 0), (2, 0)), ((0, 1), (1, 1)), ((1, 1), (2, 1)), ((0, 0), (0, 1)), ((1, 0), (1, 1)), ((2, 0), (2, 1)), ((0, 0), (2, 0)), ((0, 1), (2, 1))]


def budget_s(tier):
    return 3000 if tier == "quick" else 7200


def edge_options(tier):
    opts = [None, ("wire", False), ("R", False), ("R", True), ("V", False, False), ("V", False, True), ("V", True, False), ("V", True, True)]
    if tier == "thorough":
        opts += [("wire", True), ("C", False), ("C", True)]
    return opts


def make_item(opt, edge, idx):
    p, q = edge
    if opt[0] == "wire":
        return {"op": "wire", "p": list(q if opt[1] else p), "q": list(p if opt[1] else q)}
    if opt[1]:
        p, q = q, p
    if opt[0] == "R":
        return {"op": "sym", "kind": "resistor", "name": "R%d" % idx, "p": list(p), "q": list(q), "params": {"R": float(2 + 3 * idx)}}
    if opt[0] == "C":
        return {"op": "sym", "kind": "capacitor", "name": "C%d" % idx, "p": list(p), "q": list(q), "params": {"C": 0.5 + idx}}
    if opt[0] == "V":
        return {"op": "sym", "kind": "dc_v", "name": "V%d" % idx, "p": list(p), "q": list(q), "reverse": opt[2], "params": {"V": float(1 + idx)}}
    raise ValueError(opt)


def shards(tier):
    out = []
    opts = edge_options(tier)
    n = len(opts)
    for a in range(n):
        for b in range(n):
            for c in range(n):
                out.append(("A: 2x2 lattice fillings", ("A", a, b, c, tier)))
    e3 = len(EDGES3)
    for i in range(e3):
        for j in range(i, e3):
            out.append(("A: 3x2 lattice <=3 items", ("A3", i, j, tier)))
    for wi in range(len(WIRES)):
        for wj in range(len(WIRES)):
            if wi != wj:
                out.append(("W: wire meshes in every insertion order", ("W", wi, wj, tier)))
    for k in range(len(kind_cases())):
        out.append(("B: symbol kinds", ("B", k)))
    for a in range(n):
        out.append(("C: hash seeds", ("H", a, tier)))
    return out


def run_shard(desc):
    res = new_result()
    res["state_keys"] = set()
    if desc[0] == "A":
        _, a, b, c, tier = desc
        opts = edge_options(tier)
        if True:
            for d_ in range(len(opts)):
                sel = [opts[a], opts[b], opts[c], opts[d_]]
                base = [make_item(o, EDGES2[k], k) for k, o in enumerate(sel) if o is not None]
                if not any(it["op"] == "sym" for it in base):
                    continue
                touched = sorted({tuple(it[k]) for it in base for k in ("p", "q")})
                gpos = [None] + touched if tier == "thorough" else [None, touched[0], touched[-1]]
                for g in gpos:
                    prog = base + ([{"op": "ground", "p": list(g)}] if g is not None else [])
                    explore_drawing(prog, res, full=(g == (0, 0)) or (g is not None and (0, 0) not in touched and g == touched[0]), tier=tier)
    elif desc[0] == "W":
        run_wires(desc[1], desc[2], desc[3], res)
    elif desc[0] == "A3":
        run_a3(desc[1], desc[2], desc[3], res)
    elif desc[0] == "B":
        run_kind(kind_cases()[desc[1]], res)
    else:
        run_hash(desc[1], desc[2], res)
    return res


def replay(case):
    res = new_result()
    res["state_keys"] = set()
    if case.get("incremental"):
        judge_incremental(case["incremental"], case.get("geom", {}), res, w_list=case.get("w_list", (0.0,)))
        return res["violations"]
    judge_build(case["program"], case.get("geom", {}), case.get("style", "dir"), res, w_list=case.get("w_list", (0.0,)))
    return res["violations"]


# ------------------------------------------------------------------ exploration of one drawing
def key_of(prog):
    return json.dumps(sorted(json.dumps(it, sort_keys=True, default=str) for it in prog))


def orders(prog, full):
    k = len(prog)
    out = [list(prog), list(reversed(prog))]
    if full:
        for i in range(k - 1):
            o = list(prog)
            o[i], o[i + 1] = o[i + 1], o[i]
            out.append(o)
    seen, uniq = set(), []
    for o in out:
        s = json.dumps(o, sort_keys=True)
        if s not in seen:
            seen.add(s)
            uniq.append(o)
    return uniq


def split_wires(prog):
    out = []
    for it in prog:
        if it["op"] == "wire":
            m = [(it["p"][0] + it["q"][0]) / 2, (it["p"][1] + it["q"][1]) / 2]
            out.append({"op": "wire", "p": it["p"], "q": m})
            out.append({"op": "wire", "p": m, "q": it["q"]})
        else:
            out.append(it)
    return out


GEOMS = [{"theta": 90}, {"theta": 180}, {"theta": 270}, {"origin": [-3.5, 2.25]}, {"origin": [0.005, 0.015]}, {"unit": 3.5}, {"unit": 7}]
GEOMS_THOROUGH = GEOMS + [{"origin": [1, 2]}, {"unit": 3}, {"theta": 90, "origin": [0.005, 0.015], "unit": 3.5}]


def explore_drawing(prog, res, full, tier):
    res["evals"] += 1
    res["state_keys"].add(hash(key_of(prog)))
    if rdw.node_names(prog) is None:
        bump(res["skipped"], "two_names_on_one_node")
        return
    if any(it["op"] == "sym" for it in prog):
        res["nontrivial"] += 1
    for o in orders(prog, full):
        bump(res["hits"], "insertion_order")
        judge_build(o, {}, "dir", res)
    # the same Schematic object read after every placement (drawings are built incrementally and may be read in between)
    for o in ([list(prog), list(reversed(prog))] if full else [list(prog)]):
        judge_incremental(o, {}, res)
    if full:
        for g in (GEOMS_THOROUGH if tier == "thorough" else GEOMS):
            bump(res["hits"], "rotate" if "theta" in g else ("translate" if "origin" in g else "rescale"))
            judge_build(prog, g, "dir", res)
        if any(it["op"] == "wire" for it in prog):
            bump(res["hits"], "split_wire")
            judge_build(split_wires(prog), {}, "dir", res)
        bump(res["hits"], "placement_style")
        judge_build(prog, {}, "chain", res)
        judge_build(prog, {"theta": 90}, "chain", res)


# ------------------------------------------------------------------ judging one built drawing
def comp_source_tuple(c):
    """library source component -> (family, tuple as in rdw.source_phasor)"""
    t, v = c.type, c.value
    fam = "V" if "voltage" in t else "I"
    key = fam
    if t.startswith("dc_"):
        return fam, ("dc", float(v[key])), (float(v["R" if fam == "V" else "G"]),)
    if t.startswith("complex_"):
        return fam, ("complex", complex(v[key + "_real"], v[key + "_imag"])), (float(v["R" if fam == "V" else "G"]), float(v["X" if fam == "V" else "B"]))
    if t.startswith("ac_"):
        return fam, ("ac", float(v[key]), float(v["w"]), float(v["phi"])), (float(v["R" if fam == "V" else "G"]),)
    if t.startswith("periodic_"):
        return fam, (str(v["wavetype"]), float(v[key]), float(v["w"]), float(v["phi"])), (float(v["R" if fam == "V" else "G"]),)
    return None


def source_equal(a, b, flipped):
    """electrical equality of two source descriptions; flipped = terminals are swapped"""
    if a[0] != b[0]:
        return False
    s = -1.0 if flipped else 1.0
    if a[0] == "dc":
        return abs(a[1] - s * b[1]) <= 1e-12 * max(1, abs(a[1]))
    if a[0] == "complex":
        return abs(a[1] - s * b[1]) <= 1e-12 * max(1, abs(a[1]))
    if abs(a[2] - b[2]) > 1e-12 * max(1, abs(a[2])):
        return False
    if a[0] == "ac":
        return abs(a[1] * cmath.exp(1j * a[3]) - s * b[1] * cmath.exp(1j * b[3])) <= 1e-9 * max(1, abs(a[1]))
    # periodic waveforms: same amplitude (sign-flipped when the terminals are swapped) and the same phase modulo a turn
    dphi = (a[3] - b[3]) % (2 * math.pi)
    return abs(a[1] - s * b[1]) <= 1e-12 * max(1, abs(a[1])) and min(dphi, 2 * math.pi - dphi) <= 1e-9


def judge_build(prog, geom, style, res, w_list=(0.0,)):
    from CircuitCalculator.SimpleCircuit.DiagramTranslator import circuit_translator
    from CircuitCalculator.SimpleCircuit.DiagramParser import SchematicDiagramParser
    case = {"program": prog, "geom": geom, "style": style, "w_list": list(w_list)}
    res["transitions"] += 1
    try:
        sch = adapt.build_schematic(prog, geom, style)
    except Exception as e:
        bump(res["skipped"], "builder:" + type(e).__name__)
        res["extra"].setdefault("builder_errors", {})
        bump(res["extra"]["builder_errors"], "%s: %s" % (type(e).__name__, str(e)[:80]))
        return
    judge_schematic(sch, prog, case, res, w_list)


def judge_incremental(prog, geom, res, w_list=(0.0,)):
    """one Schematic object, extended item by item and read after every step: each reading must be that of the drawing so far"""
    import CircuitCalculator.SimpleCircuit.Elements as elm
    from CircuitCalculator.SimpleCircuit.DiagramTranslator import circuit_translator
    bump(res["hits"], "read_while_drawing")
    sch = elm.Schematic(unit=(geom or {}).get("unit", 2))
    for k, it in enumerate(prog):
        try:
            adapt.extend_schematic(sch, [it], geom, "dir")
        except Exception as e:
            bump(res["skipped"], "builder:" + type(e).__name__)
            return
        prefix = prog[:k + 1]
        res["transitions"] += 1
        if rdw.node_names(prefix) is None:
            try:
                circuit_translator(sch)
            except Exception:
                pass
            continue
        n0 = len(res["violations"])
        judge_schematic(sch, prefix, {"program": prefix, "incremental": prog, "geom": geom, "w_list": list(w_list)}, res, w_list)
        if len(res["violations"]) > n0:
            return


def judge_schematic(sch, prog, case, res, w_list=(0.0,)):
    """compare the translation of a built drawing with the union-find reference of its placement program"""
    from CircuitCalculator.SimpleCircuit.DiagramTranslator import circuit_translator
    try:
        circ = circuit_translator(sch)
        comps = list(circ.components)
        gnode = circ.ground_node
    except Exception as e:
        add_violation(res, "component_set", case, "a circuit", "%s: %s" % (type(e).__name__, e), "translation of a valid drawing raised", kind="exception:" + type(e).__name__)
        return
    intended = rdw.intended_components(prog)
    names = rdw.node_names(prog)
    cls = rdw.classes(prog)
    bump(res["hits"], "component_set")
    got = [c for c in comps if c.type != "ground"]
    grounds = [c for c in comps if c.type == "ground"]
    if sorted(c.id for c in got) != sorted(c["id"] for c in intended):
        add_violation(res, "component_set", case, sorted(c["id"] for c in intended), sorted(c.id for c in got), "translated components are not the placed symbols")
        return
    gmap = {c.id: c for c in got}
    lab2cls = {}

    def bind(label, klass):
        if lab2cls.setdefault(label, klass) != klass:
            return False
        return True
    for ic in intended:
        c = gmap[ic["id"]]
        a, b = ic["nodes"]
        if len(c.nodes) != 2:
            add_violation(res, "component_set", case, 2, len(c.nodes), "component %s does not have two terminals" % c.id)
            return
        n1, n2 = c.nodes
        if ic["family"] == "P":
            if c.type != ic["type"]:
                add_violation(res, "component_set", case, ic["type"], c.type, "symbol %s translated to another kind" % c.id)
                return
            for k, v in ic["value"].items():
                gv = float(c.value[k])
                if not (gv == v or abs(gv - v) <= 1e-12 * abs(v)):
                    add_violation(res, "component_set", case, ic["value"], dict(c.value), "value of %s changed" % c.id)
                    return
            ok = bind(n1, a) and bind(n2, b)
            if not ok:
                add_violation(res, "node_classes_bijection", case, [list(a), list(b)], [n1, n2], "terminals of %s are not on the nodes they were drawn on" % c.id)
                return
        else:
            st = comp_source_tuple(c)
            if st is None or st[0] != ic["family"]:
                add_violation(res, "component_set", case, ic["family"] + " source", c.type, "symbol %s translated to another kind" % c.id)
                return
            if any(abs(x) > 0 for x in st[2]):
                add_violation(res, "component_set", case, "ideal source", st[2], "ideal source symbol %s got an internal immittance" % c.id)
                return
            bump(res["hits"], "source_polarity")
            # which encoding did the translator choose?
            direct = lab2cls.get(n1, a) == a and lab2cls.get(n2, b) == b
            swapped = lab2cls.get(n1, b) == b and lab2cls.get(n2, a) == a
            done = False
            for flipped, okpos in ((False, direct), (True, swapped)):
                if okpos and source_equal(st[1], ic["source"], flipped):
                    if flipped:
                        bind(n1, b)
                        bind(n2, a)
                    else:
                        bind(n1, a)
                        bind(n2, b)
                    done = True
                    break
            if not done:
                add_violation(res, "source_polarity", case, {"nodes": [list(a), list(b)], "source": ic["source"]}, {"nodes": [n1, n2], "source": st[1]},
                              "source %s does not have the drawn value with polarity start->end (reversed: end->start)" % c.id)
                return
    # bijection on classes
    bump(res["hits"], "node_classes_bijection")
    if len(set(lab2cls.values())) != len(lab2cls):
        add_violation(res, "node_classes_bijection", case, "one label per node class", {k: list(v) for k, v in lab2cls.items()}, "two node labels denote the same electrical node")
        return
    # labels and ground
    bump(res["hits"], "labels_and_ground")
    cls2lab = {v: k for k, v in lab2cls.items()}
    for klass, nm in names.items():
        if klass in cls2lab and cls2lab[klass] != nm:
            add_violation(res, "labels_and_ground", case, nm, cls2lab[klass], "node named %s by its label/ground symbol is called %s" % (nm, cls2lab[klass]))
            return
    ground_items = [it for it in prog if it["op"] == "ground"]
    if ground_items:
        gcls = cls[tuple(ground_items[0]["p"])]
        if len(grounds) != 1 or grounds[0].nodes[0] != names[gcls] or gnode != names[gcls]:
            add_violation(res, "labels_and_ground", case, names[gcls], [gnode, [g.nodes for g in grounds]], "ground symbol does not define the reference node")
            return
        if gcls in cls2lab and cls2lab[gcls] != gnode:
            add_violation(res, "labels_and_ground", case, list(gcls), gnode, "reference node is not the node the ground symbol sits on")
            return
    elif grounds:
        add_violation(res, "labels_and_ground", case, "no ground", [g.nodes for g in grounds], "a ground component appeared without a ground symbol")
        return
    res["fps"].add(fp(repr(sorted((c.id, c.type) for c in got)), repr(sorted(lab2cls.values())), repr(gnode)))
    if len(res["samples"]) < 1 and len(prog) >= 4:
        res["samples"].append({"program": prog, "components": [[c.type, c.id, list(c.nodes), {k: repr(v) for k, v in c.value.items()}] for c in comps]})
    # same solution as the intended netlist (needs a ground so that potentials are defined)
    if not ground_items:
        bump(res["skipped"], "solution:no_ground_symbol")
        return
    gcls = cls[tuple(ground_items[0]["p"])]
    if gcls not in cls2lab:
        bump(res["skipped"], "solution:ground_touches_no_component")
        return
    label = {k: ("c%d_%d" % (int(k[0] * 10), int(k[1] * 10))) for k in set(cls.values())}
    for w in w_list:
        nl = rdw.phasor_netlist(prog, label, w, label[gcls])
        used = {b[0] for b in nl["branches"]} | {b[1] for b in nl["branches"]}
        if label[gcls] not in used or not rn.well_posed(nl):
            bump(res["skipped"], "solution:ill_posed")
            continue
        bump(res["hits"], "same_solution")
        try:
            from CircuitCalculator.Circuit.solution import ComplexSolution
            sol = ComplexSolution(circuit=circ, w=w, peak_values=True)
            phi_ref, cur_ref = cm.float_tableau_solution(nl)
            s_phi, s_i = cm.scales(nl, phi_ref, cur_ref)
            for lab, klass in lab2cls.items():
                if abs(complex(sol.get_potential(lab)) - phi_ref[label[klass]]) > 1e-9 * s_phi:
                    add_violation(res, "same_solution", dict(case, w=w), phi_ref[label[klass]], complex(sol.get_potential(lab)), "potential of the node at %s differs from the intended circuit's" % (list(klass),))
                    return
            for ic in intended:
                c = gmap[ic["id"]]
                ev = phi_ref[label[lab2cls[c.nodes[0]]]] - phi_ref[label[lab2cls[c.nodes[1]]]]
                if abs(complex(sol.get_voltage(c.id)) - ev) > 1e-9 * s_phi:
                    add_violation(res, "same_solution", dict(case, w=w), ev, complex(sol.get_voltage(c.id)), "voltage of %s differs" % c.id)
                    return
                # current in the translated component's own direction
                a_, b_ = ic["nodes"]
                iref = cur_ref[ic["id"]]
                if lab2cls[c.nodes[0]] != a_:
                    iref = -iref
                if abs(complex(sol.get_current(c.id)) - iref) > 1e-9 * s_i:
                    add_violation(res, "same_solution", dict(case, w=w), iref, complex(sol.get_current(c.id)), "current of %s differs" % c.id)
                    return
        except Exception as e:
            add_violation(res, "same_solution", dict(case, w=w), "a solution", "%s: %s" % (type(e).__name__, e), "solving the translated circuit raised", kind="exception:" + type(e).__name__)
            return


# ------------------------------------------------------------------ (A) 3x2 lattice, <= 3 edge items, long wires, labels
def run_a3(i, j, tier, res):
    opts = [("wire", False), ("R", False), ("V", False, False), ("V", True, True)]
    edges = EDGES3
    if True:
        for k in range(j, len(edges)):
            idxs = sorted({i, j, k})
            if len(idxs) < 3 and k != j:
                continue
            for sel in itertools.product(opts, repeat=len(idxs)):
                base = [make_item(o, edges[e], n) for n, (o, e) in enumerate(zip(sel, idxs))]
                if not any(it["op"] == "sym" for it in base):
                    continue
                touched = sorted({tuple(it[kk]) for it in base for kk in ("p", "q")})
                g = touched[0]
                prog = base + [{"op": "ground", "p": list(g)}]
                explore_drawing(prog, res, full=False, tier=tier)
                if len(touched) > 1:
                    # a label that is a word, and labels that look like the numbers the parser hands out to unlabelled nodes
                    for nm in ("A", "2", "3"):
                        prog2 = prog + [{"op": "label", "name": nm, "p": list(touched[-1])}]
                        explore_drawing(prog2, res, full=False, tier=tier)


# ------------------------------------------------------------------ (W) wire meshes: cycles, doubled and overlapping wires, every order
WIRES = [((0, 1), (1, 1)), ((1, 1), (2, 1)), ((0, 1), (2, 1)), ((0, 0), (1, 0)), ((1, 0), (2, 0)), ((0, 0), (2, 0)), ((1, 0), (1, 1)), ((1, 1), (0, 1))]


def run_wires(wi, wj, tier, res):
    """two fixed symbols, a ground and a label; every sequence of up to 4 (thorough 5) distinct candidate wires that starts
    with wires wi, wj - the candidates contain closed wire loops, a doubled wire and long wires drawn over two short ones"""
    syms = [{"op": "sym", "kind": "dc_v", "name": "V1", "p": [0, 0], "q": [0, 1], "params": {"V": 10.0}},
            {"op": "sym", "kind": "resistor", "name": "R1", "p": [2, 1], "q": [2, 0], "params": {"R": 30.0}},
            {"op": "sym", "kind": "resistor", "name": "R2", "p": [1, 1], "q": [1, 0], "params": {"R": 60.0}}]
    tail = [{"op": "ground", "p": [0, 0]}, {"op": "label", "name": "A", "p": [2, 1]}]
    rest = [k for k in range(len(WIRES)) if k not in (wi, wj)]
    kmax = 5 if tier == "thorough" else 4
    for extra in range(0, kmax - 1):
        for seq in itertools.permutations(rest, extra):
            order = (wi, wj) + seq
            wires = [{"op": "wire", "p": list(WIRES[k][0]), "q": list(WIRES[k][1])} for k in order]
            prog = syms + wires + tail
            res["evals"] += 1
            if rdw.node_names(prog) is None:
                bump(res["skipped"], "two_names_on_one_node")
                continue
            res["nontrivial"] += 1
            res["state_keys"].add(hash(key_of(prog)))
            bump(res["hits"], "wire_mesh_order")
            judge_build(prog, {}, "dir", res)
            if extra == kmax - 2:
                judge_build(wires + syms + tail, {}, "dir", res)


# ------------------------------------------------------------------ (B) every symbol kind
def kind_cases():
    out = []
    P = {
        "resistor": [{"R": 4.7}], "conductance": [{"G": 0.25}], "impedance": [{"Z": [3.0, -4.0]}], "capacitor": [{"C": 0.5}], "inductance": [{"L": 0.2}],
        "lamp": [{"V_ref": 12.0, "P_ref": 6.0}], "switch_open": [{}], "switch_closed": [{}], "labeled_wire": [{}],
        "dc_v": [{"V": 1.5}], "dc_i": [{"I": -0.5}], "complex_v": [{"V": [1.0, 2.0]}], "complex_i": [{"I": [0.5, -1.0]}],
        "ac_v": [{"V": 2.0, "w": 1.0, "phi": 90.0, "deg": True, "sin": True}, {"V": 2.0, "w": 1.0, "phi": 1.5707963267948966, "sin": True}, {"V": 2.0, "w": 1.0, "phi": 0.0},
                 {"V": 2.0, "w": 1.0, "phi": 0.5}, {"V": 2.0, "w": 1.0, "phi": 30.0, "deg": True}, {"V": 2.0, "w": 1.0, "phi": 0.5, "sin": True}, {"V": 2.0, "w": 1.0, "phi": 30.0, "deg": True, "sin": True}],
        "ac_i": [{"I": 2.0, "w": 1.0, "phi": 90.0, "deg": True, "sin": True}, {"I": 2.0, "w": 1.0, "phi": 0.0},
                 {"I": 2.0, "w": 1.0, "phi": 0.5}, {"I": 2.0, "w": 1.0, "phi": 30.0, "deg": True}, {"I": 2.0, "w": 1.0, "phi": 0.5, "sin": True}, {"I": 2.0, "w": 1.0, "phi": 30.0, "deg": True, "sin": True}],
    }
    for k in ("rect", "tri", "saw"):
        P[k + "_v"] = [{"V": 1.0, "w": 1.0, "phi": 0.3}, {"V": 1.0, "w": 1.0, "phi": 45.0, "deg": True}]
        P[k + "_i"] = [{"I": 1.0, "w": 1.0, "phi": 0.3}, {"I": 1.0, "w": 1.0, "phi": 45.0, "deg": True}]
    # bench values that no short decimal represents (a document that rounds or reformats numbers shows here)
    P["resistor"].append({"R": 1e6 / 3})
    P["conductance"].append({"G": 1e-7 / 3})
    P["impedance"].append({"Z": [1e3 / 7, -1e-7 / 3]})
    P["capacitor"] += [{"C": 4.7e-9}, {"C": 1e-3 / 3}]
    P["inductance"] += [{"L": 3.3e-10}, {"L": 0.1 + 1e-11}]
    P["dc_v"].append({"V": 1e-9 / 3})
    P["dc_i"].append({"I": -2e-12 / 7})
    P["complex_v"].append({"V": [1e-10 / 3, 2e5 / 7]})
    P["ac_v"].append({"V": 325.26911934581187, "w": 314.1592653589793, "phi": 0.12345678901234})
    P["ac_i"].append({"I": 1e-6 / 3, "w": 314.1592653589793, "phi": 2.0943951023931953})
    P["rect_v"].append({"V": 1 / 3, "w": 314.1592653589793, "phi": 0.12345678901234})
    P["rect_i"].append({"I": 1e-10 / 3, "w": 2e5 / 7, "phi": 1e-10 / 3})
    for kind, plist in P.items():
        for params in plist:
            out.append((kind, params))
    return out


def run_kind(kc, res):
    kind, params = kc
    is_src = kind in rdw.VOLTAGE_KINDS or kind in rdw.CURRENT_KINDS
    for fwd in (True, False):
        for rev in ((False, True) if is_src else (False,)):
            p, q = ((0, 0), (0, 1)) if fwd else ((0, 1), (0, 0))
            sym = {"op": "sym", "kind": kind, "name": "X1", "p": list(p), "q": list(q), "params": params}
            if is_src:
                sym["reverse"] = rev
            ctx1 = [sym, {"op": "sym", "kind": "resistor", "name": "Rload", "p": [0, 1], "q": [1, 1], "params": {"R": 5.0}}, {"op": "wire", "p": [1, 1], "q": [1, 0]},
                    {"op": "wire", "p": [1, 0], "q": [0, 0]}, {"op": "ground", "p": [0, 0]}]
            ctx2 = [{"op": "sym", "kind": "dc_v", "name": "Vs", "p": [1, 0], "q": [1, 1], "params": {"V": 3.0}}, {"op": "sym", "kind": "resistor", "name": "Rs", "p": [1, 1], "q": [0, 1], "params": {"R": 2.0}},
                    sym, {"op": "wire", "p": [0, 0], "q": [1, 0]}, {"op": "ground", "p": [1, 0]}, {"op": "label", "name": "out", "p": [0, 1]}]
            for ctx in (ctx1, ctx2):
                res["evals"] += 1
                res["nontrivial"] += 1
                res["state_keys"].add(hash(key_of(ctx)))
                for theta in (0, 90, 180, 270):
                    for style in ("dir", "chain"):
                        bump(res["hits"], "kind:" + kind)
                        judge_build(ctx, {"theta": theta}, style, res, w_list=(0.0, 1.0, 3.0))


# ------------------------------------------------------------------ (C) hash seeds in sub-processes
def run_hash(a, tier, res):
    """re-run one slice of (A) (ground at the origin, canonical order) under two other hash seeds"""
    for seed in (("1", "7") if tier == "thorough" else ("1",)):
        env = dict(os.environ, PYTHONHASHSEED=seed, VERIF_C13_SUB="1")
        code = ("import sys, json; sys.path.insert(0, %r); from mc import runner; runner.ensure_repo_import(); from props import c13; "
                "r = c13.hash_slice(%d, %r); print('RESULT' + json.dumps(r))" % (os.path.dirname(os.path.dirname(os.path.abspath(__file__))), a, tier))
        out = subprocess.run([sys.executable, "-c", code], env=env, capture_output=True, text=True)
        line = [l for l in out.stdout.splitlines() if l.startswith("RESULT")]
        if out.returncode != 0 or not line:
            raise RuntimeError("hash-seed sub-process failed: " + out.stderr[-500:])
        r = json.loads(line[0][6:])
        res["evals"] += r["evals"]
        res["transitions"] += r["transitions"]
        res["nontrivial"] += r["nontrivial"]
        bump(res["hits"], "hash_seed", r["transitions"])
        for v in r["violations"]:
            v["case"]["hash_seed"] = seed
            v["subcheck"] = "hash_seed"
            res["violations"].append(v)
            bump(res["extra"], "violations_total")


def hash_slice(a, tier):
    res = new_result()
    res["state_keys"] = set()
    opts = edge_options(tier)
    for b in range(len(opts)):
        for c in range(len(opts)):
            for d_ in range(len(opts)):
                sel = [opts[a], opts[b], opts[c], opts[d_]]
                base = [make_item(o, EDGES2[k], k) for k, o in enumerate(sel) if o is not None]
                if not any(it["op"] == "sym" for it in base):
                    continue
                touched = sorted({tuple(it[k]) for it in base for k in ("p", "q")})
                prog = base + [{"op": "ground", "p": list(touched[0])}]
                res["evals"] += 1
                res["nontrivial"] += 1
                judge_build(prog, {}, "dir", res)
    return {"evals": res["evals"], "transitions": res["transitions"], "nontrivial": res["nontrivial"], "violations": res["violations"][:5]}


def vacuity(agg, tier):
    out = []
    for k in ("component_set", "node_classes_bijection", "labels_and_ground", "source_polarity", "same_solution", "insertion_order", "rotate", "translate", "rescale", "split_wire", "placement_style", "hash_seed", "wire_mesh_order"):
        if agg["hits"].get(k, 0) == 0:
            out.append("sub-check %s never fired" % k)
    for kind, _ in kind_cases():
        if agg["hits"].get("kind:" + kind, 0) == 0:
            out.append("kind %s never driven" % kind)
    if agg["skipped"].get("builder:TypeError", 0) or any(k.startswith("builder:") for k in agg["skipped"]):
        out.append("the drawing builder itself failed on some programs: %s" % {k: v for k, v in agg["skipped"].items() if k.startswith("builder:")})
    return out
