"""C16 - network simplifications are electrical identities (shape G: BFS over real operations)."""
import itertools
import json
import numpy as np

from mc import space as sp
from mc import adapt
from mc.ref import netlist as rn
from mc.runner import new_result, bump, fp, add_violation
from . import common as cm

ID = "C16"
LEVEL = "model_checking"
RULE = ("states are networks (canonical key = extracted netlist); initial states = every labelled multigraph topology "
        "of the listed levels x kind assignment over {Z,V,I,LV,short,open} (shorts and opens in every position, chained, "
        "parallel, touching the reference) x orientation x reference node (real values for even orientation masks, complex for odd); transitions = the eight public simplification "
        "operations with every admissible parameter (each element, each node, every subset of shorts as exemption list, "
        "exemption lists {none, each single source/short, all}); results are fed to further operations up to the stated "
        "depth; every transition is judged by a netlist-level reference of the operation, an input-unchanged snapshot and "
        "electrical equivalence (reference solver / reference port impedance on original and result); "
        "non-trivial = transition whose result differs from its input"
        ' Additions: twin-element pass (palette eq), extreme-value pass (palette xt, judged structurally), nested ids.')
ASSUMPTIONS = ["numpy.linalg accuracy on the palettes", "equivalence is judged with the reference solver on the extracted result, so only the transformer is under test"]
EXPLANATION = "explicit-state search; each transition calls the real transformer on the real object reached by the previous transitions"
KINDS_T = ("Z", "V", "short", "open", "I", "LV")


def budget_s(tier):
    return 1200 if tier == "quick" else 10800


# (n, b, kinds, depth, min_shorts, orient_mode)
KINDS_T7 = KINDS_T + ("LI",)      # lossy current sources too (they count as voltage sources for the value-based predicates)
LEVELS_QUICK = [
    (2, 1, KINDS_T7, 2, 0),
    (2, 2, KINDS_T7, 2, 0),
    (2, 3, KINDS_T, 2, 0),
    (3, 2, KINDS_T, 2, 0),
    (3, 3, ("Z", "V", "short", "open", "I"), 1, 0),
    (4, 3, ("Z", "V", "short"), 1, 1),
    (4, 4, ("Z", "V", "short"), 1, 3),
]
LEVELS_THOROUGH = [
    (2, 1, KINDS_T7, 3, 0),
    (2, 2, KINDS_T7, 3, 0),
    (2, 3, KINDS_T, 2, 0),
    (3, 2, KINDS_T, 2, 0),
    (3, 3, ("Z", "V", "short", "open", "I"), 2, 0),
    (3, 4, ("Z", "V", "short", "open"), 1, 0),
    (4, 3, ("Z", "V", "short", "I"), 1, 1),
    (4, 4, ("Z", "V", "short"), 1, 2),
    (4, 5, ("Z", "V", "short"), 1, 3),
    (5, 5, ("Z", "V", "short"), 1, 4),
]


def shards(tier):
    out = []
    for (n, b, kinds, depth, min_sh) in (LEVELS_QUICK if tier == "quick" else LEVELS_THOROUGH):
        topos = sp.topologies(n, b)
        allk = [kt for kt in itertools.product(kinds, repeat=b) if sum(1 for k in kt if k == "short") >= min_sh]
        per = max(1, (60 if depth == 1 else 6 if depth == 2 else 2) // max(1, 2 ** (b - 2)))
        for ti in range(len(topos)):
            for ch in sp.chunks(range(len(allk)), per):
                out.append(("N(%d,%d)|K%d|depth%d|shorts>=%d" % (n, b, len(kinds), depth, min_sh), (n, b, ti, kinds, min_sh, ch[0], ch[-1] + 1, depth)))
    return out


def run_shard(desc):
    n, b, ti, kinds, min_sh, k0, k1, depth = desc
    res = new_result()
    topo = sp.topologies(n, b)[ti]
    allk = [kt for kt in itertools.product(kinds, repeat=b) if sum(1 for k in kt if k == "short") >= min_sh]
    seen = set()
    for kt in allk[k0:k1]:
        for orient in range(2 ** b):
            for ref_idx in range(n):
                labels = sp.LABELS_PLAIN[:n] if (orient + ref_idx) % 2 == 0 else sp.LABELS_ODD[:n]
                # prime palette for even orientation masks, Gaussian-rational (complex) palette for odd ones
                nl = cm.build_netlist(topo, kt, orient, ref_idx, labels, "real" if orient % 2 == 0 else "cplx", sp.IDS_ASC[:b])
                explore(nl, [], depth, res, seen)
        if b >= 2 and n <= 3:
            # twin elements: equal values everywhere, so that elements differ by their names only
            for orient in (0, 2 ** b - 1, 1):
                nl = cm.build_netlist(topo, kt, orient, 0, sp.LABELS_PLAIN[:n], "eq", sp.IDS_ASC[:b])
                explore(nl, [], depth, res, seen)
            # almost-open and almost-short elements, almost-dead sources (structural judgement only), both listing parities
            for orient in (0, 2 ** b - 1):
                nl = cm.build_netlist(topo, kt, orient, n - 1, sp.LABELS_ODD[:n], "xt", sp.IDS_ASC[:b])
                explore(nl, [], depth, res, seen)
                nl = cm.build_netlist(tuple(reversed(topo)), tuple(reversed(kt)), orient, 0, sp.LABELS_PLAIN[:n], "xt", sp.IDS_ASC[:b])
                explore(nl, [], depth, res, seen)
    return res


def replay(case):
    res = new_result()
    nl = case["initial"]
    explore(nl, [], len(case.get("history", [])) + 1, res, set(), only=case.get("history", []) + [case["op"]])
    return res["violations"]


# ------------------------------------------------------------------ operations
def operations(nl):
    """Every admissible operation instance on the netlist: (name, params) JSON-able."""
    ops = [("remove_open_circuit_elements", {})]
    shorts = [b[3] for b in nl["branches"] if b[2] == "short"]
    srcs = [b[3] for b in nl["branches"] if b[2] in rn.SOURCES]
    for r in range(len(shorts) + 1):
        for sub in itertools.combinations(shorts, r):
            ops.append(("remove_short_circuit_elements", {"keep": list(sub)}))
    for b in nl["branches"]:
        ops.append(("remove_element", {"element": b[3]}))
    for nd in rn.nodes_of(nl):
        if nd != nl["ref"] and any(nd in (b[0], b[1]) for b in nl["branches"]):
            ops.append(("switch_ground_node", {"new_ground": nd}))
    keeps = [[]] + [[s] for s in srcs] + ([srcs] if len(srcs) > 1 else [])
    for name in ("short_circuitify_voltage_sources", "open_circuitify_current_sources", "remove_ideal_current_sources"):
        for k in keeps:
            ops.append((name, {"keep": k}))
    keeps2 = [[]] + [[s] for s in srcs + shorts] + ([srcs + shorts] if len(srcs + shorts) > 1 else [])
    for name in ("remove_ideal_voltage_sources", "passive_network"):
        for k in keeps2:
            ops.append((name, {"keep": k}))
    return ops


def apply_op(net, op):
    from CircuitCalculator.Network import transformers as trf
    name, params = op
    f = getattr(trf, name)
    kw = dict(params)
    keep_objs = None
    if "keep" in kw:
        elem = {b.id: b.element for b in net.branches}
        keep_objs = [elem[k] for k in kw["keep"]]
        kw["keep"] = keep_objs
    out = f(net, **kw)
    return out, keep_objs


def snapshot(net):
    return (net.node_zero_label, tuple((b.node1, b.node2, repr(b.element)) for b in net.branches))


# ------------------------------------------------------------------ reference of each operation
def imm_equal(b1, b2):
    """same immittance and source values (numerically), possibly in the dual record form"""
    z1, y1 = rn.immittance(b1)
    z2, y2 = rn.immittance(b2)

    def close(a, b_):
        if a is None or b_ is None:
            return a is None and b_ is None
        a, b_ = complex(a), complex(b_)
        return abs(a - b_) <= 1e-12 * max(abs(a), abs(b_), 1e-300)
    return close(z1, z2) if z1 is not None and z2 is not None else close(y1, y2)


def same_branch(b1, b2, check_nodes=True):
    if b1[3] != b2[3]:
        return False
    if check_nodes and (b1[0] != b2[0] or b1[1] != b2[1]):
        return False
    if b1[2] != b2[2]:
        return False
    if len(b1[4]) != len(b2[4]):
        return False
    return all(abs(rn.c(x) - rn.c(y)) <= 1e-12 * max(abs(rn.c(x)), 1e-300) for x, y in zip(b1[4], b2[4]))


def ref_zero_v(b, keep):
    """reference of short_circuitify_voltage_sources on one branch"""
    if b[3] in keep:
        return b
    n1, n2, kind, bid, p = b
    if kind == "V":
        return [n1, n2, "short", bid, []]
    if kind == "LV":
        return [n1, n2, "Z", bid, [p[1]]]
    if kind == "LI":                      # has a non-zero Thevenin voltage: becomes its internal impedance
        y = rn.c(p[1])
        return [n1, n2, "Z", bid, [[(1 / y).real, (1 / y).imag]]]
    return b


def ref_zero_i(b, keep):
    if b[3] in keep:
        return b
    n1, n2, kind, bid, p = b
    if kind == "I":
        return [n1, n2, "open", bid, []]
    if kind == "LI":
        return [n1, n2, "Y", bid, [p[1]]]
    if kind == "LV":
        z = rn.c(p[1])
        return [n1, n2, "Y", bid, [[(1 / z).real, (1 / z).imag]]]
    return b


def short_classes(nl, exempt):
    """union-find over nodes joined by non-exempt shorts"""
    parent = {n: n for n in rn.nodes_of(nl)}

    def find(x):
        while parent[x] != x:
            parent[x] = parent[parent[x]]
            x = parent[x]
        return x
    for b in nl["branches"]:
        if b[2] == "short" and b[3] not in exempt:
            parent[find(b[0])] = find(b[1])
    return {n: find(n) for n in parent}


def check_exact_result(res, sub, case, got, expected):
    """result must consist of exactly the expected branches (same id, terminals, kind, values)"""
    g = {b[3]: b for b in got["branches"]}
    e = {b[3]: b for b in expected["branches"]}
    if got["ref"] != expected["ref"]:
        add_violation(res, sub, case, expected["ref"], got["ref"], "reference node changed")
        return False
    if sorted(g) != sorted(e) or len(g) != len(got["branches"]):
        add_violation(res, sub, case, sorted(e), sorted(g), "set of surviving branches is not what the operation names")
        return False
    for k in e:
        if not (same_branch(g[k], e[k]) or (g[k][0] == e[k][0] and g[k][1] == e[k][1] and g[k][2] == e[k][2] and imm_equal(g[k], e[k]) and g[k][2] in ("Z", "Y"))):
            add_violation(res, sub, case, e[k], g[k], "surviving branch %s changed identifier, orientation or value" % k)
            return False
    return True


def check_contraction(res, sub, case, before, got, exempt):
    """before: netlist entering the contraction stage; got: result.  Returns node map or None."""
    cls = short_classes(before, exempt)
    b0 = {b[3]: b for b in before["branches"]}
    g = {b[3]: b for b in got["branches"]}
    if got["ref"] != before["ref"]:
        add_violation(res, sub, case, before["ref"], got["ref"], "reference node changed")
        return None
    if len(g) != len(got["branches"]) or any(k not in b0 for k in g):
        add_violation(res, sub, case, sorted(b0), sorted(g), "result has duplicated or invented branches")
        return None
    m = {}
    for k, gb in g.items():
        ob = b0[k]
        if not same_branch(ob, gb, check_nodes=False):
            add_violation(res, "survivors_identity", case, ob, gb, "surviving branch %s changed kind or value" % k)
            return None
        for on, gn in ((ob[0], gb[0]), (ob[1], gb[1])):
            if m.setdefault(on, gn) != gn:
                add_violation(res, "survivors_identity", case, "one image per node", {on: [m[on], gn]}, "node %s renamed inconsistently" % on)
                return None
            if gn not in cls or cls[gn] != cls[on]:
                add_violation(res, "survivors_identity", case, "rename within a short-circuit class", {on: gn},
                              "node %s renamed to %s, which is not joined to it by removed shorts" % (on, gn))
                return None
    # removed branches: only non-exempt shorts, or branches whose terminals were merged
    for k, ob in b0.items():
        if k in g:
            continue
        if k in exempt and cls[ob[0]] == cls[ob[1]]:
            bump(res["skipped"], "exempt_element_shorted_out_by_contraction")
            continue
        if k in exempt:
            add_violation(res, "keep_respected", case, "kept", "removed", "exempted element %s was removed" % k)
            return None
        if not ((ob[2] == "short") or cls[ob[0]] == cls[ob[1]]):
            add_violation(res, sub, case, "survives", "removed", "branch %s (%s) removed although it is no short and not shorted out" % (k, ob[2]))
            return None
    # exempt elements untouched (modulo renaming)
    # isolated non-exempt shorts must disappear
    shorts = [b for b in before["branches"] if b[2] == "short" and b[3] not in exempt]
    for s in shorts:
        others = [o for o in shorts if o[3] != s[3] and ({o[0], o[1]} & {s[0], s[1]})]
        if not others and s[3] in g:
            add_violation(res, sub, case, "removed", g[s[3]], "short %s shares no node with another short but survived" % s[3])
            return None
    # the reference node is never absorbed
    if before["ref"] not in rn.nodes_of(got):
        add_violation(res, sub, case, before["ref"], rn.nodes_of(got), "reference node vanished")
        return None
    for n in rn.nodes_of(before):
        m.setdefault(n, None)
    return m


# ------------------------------------------------------------------ float reference analysis
def fsolve(nl):
    M, rhs, nidx, nb = rn.tableau(nl)
    A = np.array([[complex(x) for x in row] for row in M], dtype=complex)
    if A.shape[0] == 0:
        return {nl["ref"]: 0j}, {}
    try:
        if np.linalg.cond(A) > 1e11:
            return None
        x = np.linalg.solve(A, np.array([complex(v) for v in rhs]))
    except np.linalg.LinAlgError:
        return None
    nn = len(nidx)
    phi = {n: x[k] for n, k in nidx.items()}
    phi[nl["ref"]] = 0j
    return phi, {b[3]: x[nn + k] for k, b in enumerate(nl["branches"])}


def fport(nl, a, b_):
    def solver(d, a2, b2):
        s = fsolve(d)
        if s is None:
            return None
        return s[0][a2] - s[0][b2]
    z = rn.port_impedance(nl, a, b_, solver=solver)
    if z is None or z == "inf":
        return z
    return complex(z)


def extreme_values(nl):
    """values so small or large that float analysis cannot compare two networks to 1e-9: judged structurally only"""
    for b in nl["branches"]:
        for x in b[4]:
            m = abs(rn.c(x))
            if m and (m < 1e-6 or m > 1e6):
                return True
    return False


def check_solution_equiv(res, case, before, got, node_map):
    if extreme_values(before):
        bump(res["skipped"], "equivalence:extreme_values_judged_structurally_only")
        return
    s0 = fsolve(before)
    if s0 is None:
        bump(res["skipped"], "equivalence:original_ill_posed")
        return
    s1 = fsolve(got)
    bump(res["hits"], "electrical_equivalence:solution")
    if s1 is None:
        add_violation(res, "electrical_equivalence", case, "well-posed result", "singular", "original is well-posed but the simplified network is not")
        return
    s_phi, s_i = cm.scales(before, s0[0], s0[1])
    shift = s0[0][got["ref"]] if got["ref"] in s0[0] else 0j
    for on, gn in node_map.items():
        if gn is None or gn not in s1[0]:
            continue
        if abs((s0[0][on] - shift) - s1[0][gn]) > 1e-9 * s_phi:
            add_violation(res, "electrical_equivalence", case, s0[0][on] - shift, s1[0][gn], "potential of node %s changed" % on)
            return
    for b in got["branches"]:
        if abs(s0[1][b[3]] - s1[1][b[3]]) > 1e-9 * s_i:
            add_violation(res, "electrical_equivalence", case, s0[1][b[3]], s1[1][b[3]], "current of surviving branch %s changed" % b[3])
            return


def check_port_equiv(res, case, before, got, node_map):
    if extreme_values(before):
        bump(res["skipped"], "equivalence:extreme_values_judged_structurally_only")
        return
    bump(res["hits"], "electrical_equivalence:port_impedance")
    nodes = [n for n in rn.nodes_of(before) if node_map.get(n) is not None]
    zs = [abs(complex(z)) for z in (rn.immittance(b)[0] for b in before["branches"]) if z is not None and z]
    zscale = max(zs) if zs else 1.0
    for a, b_ in itertools.combinations(nodes, 2):
        z0 = fport(before, a, b_)
        if z0 is None or z0 == "inf":
            continue
        ga, gb = node_map[a], node_map[b_]
        if ga not in rn.nodes_of(got) or gb not in rn.nodes_of(got):
            continue
        z1 = fport(got, ga, gb)
        if z1 is None or z1 == "inf" or abs(z1 - z0) > 1e-9 * zscale:
            add_violation(res, "electrical_equivalence", dict(case, port=[a, b_]), z0, z1, "port impedance between %s and %s changed" % (a, b_))
            return


# ------------------------------------------------------------------ exploration
def explore(nl0, hist, depth, res, seen, only=None):
    """DFS over operation sequences starting from the initial netlist nl0; the real objects
    are carried along (results of real operations are fed to further real operations)."""
    try:
        net0 = adapt.network(nl0)
    except Exception as e:
        bump(res["skipped"], "cannot_build:" + type(e).__name__)
        return
    _explore(nl0, net0, nl0, hist, depth, res, seen, only)


def _explore(nl_init, net, nl, hist, depth, res, seen, only):
    key = json.dumps(nl, sort_keys=True, default=repr)
    if only is None:
        if key in seen and hist:
            return
        if key not in seen:
            seen.add(key)
            res["states"] += 1
    ops = operations(nl)
    if only is not None:
        want = only[len(hist)]
        ops = [op for op in ops if [op[0], op[1]] == [want[0], want[1]] or (op[0], op[1]) == tuple(want)]
    for op in ops:
        case = {"initial": nl_init, "history": [list(h) for h in hist], "op": [op[0], op[1]]}
        snap = snapshot(net)
        res["transitions"] += 1
        res["evals"] += 1       # one evaluation = one real transformer call judged
        try:
            out, keep_objs = apply_op(net, op)
            keep_snap = None if keep_objs is None else [repr(k) for k in keep_objs]
            got = adapt.to_netlist(out)
        except Exception as e:
            known_ok = expected_exception(nl, op, e)
            if known_ok:
                bump(res["skipped"], "operation_rejects:" + known_ok)
                continue
            add_violation(res, "operation_raises", case, "a network", "%s: %s" % (type(e).__name__, e), "%s raised" % op[0], kind="exception:" + type(e).__name__)
            continue
        bump(res["hits"], "input_unmodified")
        if snapshot(net) != snap:
            add_violation(res, "input_unmodified", case, snap, snapshot(net), "%s modified its input network" % op[0], kind="mutated_input")
            # the real object no longer represents the state: rebuild it so that later transitions stay replayable
            net = adapt.network(nl)
        if keep_objs is not None and [repr(k) for k in keep_objs] != [repr(e) for e in [b.element for b in net.branches if b.id in op[1]["keep"]]] and False:
            pass
        ok = judge_op(nl, got, op, res, case)
        if got != nl:
            res["nontrivial"] += 1
        res["fps"].add(hash(json.dumps(got, sort_keys=True, default=repr)) & 0xFFFFFFFFFFFF)
        if len(res["samples"]) < 2 and got != nl and hist:
            res["samples"].append({"initial": nl_init, "history": [list(h) for h in hist], "op": [op[0], op[1]], "result": got})
        if ok and depth > 1 and (only is None or len(hist) + 1 < len(only)):
            _explore(nl_init, out, got, hist + [(op[0], op[1])], depth - 1, res, seen, only)
            if snapshot(net) != snap:
                # a deeper operation mutated a result that shares its branch list with this state's object
                # (already reported there as input_unmodified); restore the object of this state
                net = adapt.network(nl)


def expected_exception(nl, op, e):
    """Operations may legitimately refuse: the Network invariant (reference node must touch
    an element) can fail after removal; that is a documented rejection, not a defect."""
    name = type(e).__name__
    if name == "FloatingGroundNode":
        return "FloatingGroundNode"
    return None


def judge_op(nl, got, op, res, case):
    name, params = op
    keep = set(params.get("keep", []))
    bump(res["hits"], "op:" + name)
    ident = {n: n for n in rn.nodes_of(nl)}
    if name == "remove_open_circuit_elements":
        exp = {"ref": nl["ref"], "branches": [b for b in nl["branches"] if b[2] != "open"]}
        if not check_exact_result(res, "survivors_identity", case, got, exp):
            return False
        check_solution_equiv(res, case, nl, got, ident)
        return True
    if name == "remove_element":
        exp = {"ref": nl["ref"], "branches": [b for b in nl["branches"] if b[3] != params["element"]]}
        return check_exact_result(res, "survivors_identity", case, got, exp)
    if name == "switch_ground_node":
        exp = {"ref": params["new_ground"], "branches": nl["branches"]}
        if not check_exact_result(res, "survivors_identity", case, got, exp):
            return False
        check_solution_equiv(res, case, nl, got, ident)
        return True
    if name == "short_circuitify_voltage_sources":
        exp = {"ref": nl["ref"], "branches": [ref_zero_v(b, keep) for b in nl["branches"]]}
        if not check_exact_result(res, "survivors_identity", case, got, exp):
            return False
        check_port_equiv(res, case, nl, got, ident)
        return True
    if name == "open_circuitify_current_sources":
        exp = {"ref": nl["ref"], "branches": [ref_zero_i(b, keep) for b in nl["branches"]]}
        if not check_exact_result(res, "survivors_identity", case, got, exp):
            return False
        check_port_equiv(res, case, nl, got, ident)
        return True
    if name == "remove_ideal_current_sources":
        exp = {"ref": nl["ref"], "branches": [x for x in (ref_zero_i(b, keep) for b in nl["branches"]) if x[2] != "open"]}
        if not check_exact_result(res, "survivors_identity", case, got, exp):
            return False
        check_port_equiv(res, case, nl, got, ident)
        return True
    if name == "remove_short_circuit_elements":
        m = check_contraction(res, "survivors_identity", case, nl, got, keep)
        if m is None:
            return False
        check_solution_equiv(res, case, nl, got, m)
        return True
    if name == "remove_ideal_voltage_sources":
        mid = {"ref": nl["ref"], "branches": [ref_zero_v(b, keep) for b in nl["branches"]]}
        m = check_contraction(res, "survivors_identity", case, mid, got, keep)
        if m is None:
            return False
        check_port_equiv(res, case, nl, got, m)
        return True
    if name == "passive_network":
        mid = {"ref": nl["ref"], "branches": [ref_zero_v(x, keep) for x in (ref_zero_i(b, keep) for b in nl["branches"]) if x[2] != "open"]}
        m = check_contraction(res, "survivors_identity", case, mid, got, keep)
        if m is None:
            return False
        check_port_equiv(res, case, nl, got, m)
        return True
    raise ValueError(name)


def vacuity(agg, tier):
    out = []
    for name in ("remove_open_circuit_elements", "remove_short_circuit_elements", "remove_element", "switch_ground_node",
                 "short_circuitify_voltage_sources", "open_circuitify_current_sources", "remove_ideal_current_sources",
                 "remove_ideal_voltage_sources", "passive_network"):
        if agg["hits"].get("op:" + name, 0) == 0:
            out.append("operation %s never explored" % name)
    for k in ("input_unmodified", "electrical_equivalence:solution", "electrical_equivalence:port_impedance"):
        if agg["hits"].get(k, 0) == 0:
            out.append("sub-check %s never fired" % k)
    if agg["nontrivial"] < 1000:
        out.append("too few effective transitions")
    return out
