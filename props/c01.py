"""C01 - steady-state solution obeys Kirchhoff's laws and every element law (shape S)."""
import itertools

from mc import space as sp
from mc import adapt
from mc.ref import netlist as rn
from mc.runner import new_result, bump, fp, add_violation
from . import common as cm

ID = "C01"
LEVEL = "model_checking"
DESIGN_REF = "DESIGN.md 4 / C01"
RULE = ("bounded-exhaustive enumeration, level by level, of every connected labelled multigraph topology x "
        "kind assignment (plus ladders of 2..6(8) sections, rings of 3..6(8) elements with every source position and complete graphs K3..K5 over a short list of kind patterns, up to 10 nodes / 17 branches; plus the family of well-posed small networks with one extra branch whose two terminals are the same node) x orientation bitmask x reference node x label tuple x value palette x id scheme; "
        "shards partition the space so every input is generated once; an input is counted in states when it is "
        "well-posed (exact determinant over Q(i) of its tableau, decided per topology/kind/palette class) and "
        "judged; non-trivial = judged and the reference solution is not identically zero; distinctness is by "
        "construction of the enumeration and re-measured per shard by hashing the canonical netlist"
        ' Additions: palettes eq (all values equal), wide (<= 8 decades), small (nV/nA sources); label sets plain, nested-odd and ids (node names that are branch ids); every solution object is asked again in the opposite order and a second object built from NumPy-scalar values is asked powers-first.')
ASSUMPTIONS = ["numpy.linalg.solve is accurate to 1e-12 relative on the palettes (condition numbers measured)",
               "continuous parameters are represented by the palettes (distinct primes / Gaussian rationals / decades)",
               "python Fraction arithmetic is exact"]
EXPLANATION = "direct exploration of the real solver; every execution is an execution of /repo/src"


def budget_s(tier):
    return 2400 if tier == "quick" else 10800


LEVELS_QUICK = [
    # (n, b, kinds, palettes, labelsets, full_ids)
    (2, 1, cm.KINDS7, ("real", "cplx", "eq", "wide", "small"), ("plain", "odd"), True),
    (2, 2, cm.KINDS7, ("real", "cplx", "eq", "wide", "small"), ("plain", "odd", "ids"), True),
    (2, 3, cm.KINDS7, ("real", "cplx"), ("plain", "odd"), False),
    (3, 2, cm.KINDS7, ("real", "cplx", "eq", "wide", "small"), ("plain", "odd", "ids"), True),
    (3, 3, cm.KINDS7, ("real", "cplx"), ("plain", "odd"), False),
    (3, 3, cm.KINDS4, ("eq", "wide"), ("odd",), False),
    (3, 4, cm.KINDS4, ("real",), ("plain", "odd"), False),
    (4, 3, cm.KINDS4, ("cplx",), ("plain", "odd"), False),
    (4, 4, cm.KINDS3, ("real",), ("odd",), False),
]
LEVELS_THOROUGH = [
    (2, 1, cm.KINDS7, ("real", "cplx", "dec", "eq", "wide", "small"), ("plain", "odd"), True),
    (2, 2, cm.KINDS7, ("real", "cplx", "dec", "eq", "wide", "small"), ("plain", "odd", "ids"), True),
    (2, 3, cm.KINDS7, ("real", "cplx", "dec", "small"), ("plain", "odd", "ids"), True),
    (3, 2, cm.KINDS7, ("real", "cplx", "dec", "eq", "wide", "small"), ("plain", "odd", "ids"), True),
    (3, 3, cm.KINDS7, ("real", "cplx", "dec", "eq", "wide"), ("plain", "odd"), True),
    (3, 4, cm.KINDS7, ("real", "cplx"), ("plain", "odd"), False),
    (4, 3, cm.KINDS7, ("real", "cplx"), ("plain", "odd"), False),
    (4, 4, cm.KINDS4, ("real", "cplx"), ("plain", "odd"), False),
    (4, 5, cm.KINDS3, ("real",), ("odd",), False),
    (5, 5, ("Z", "V"), ("cplx",), ("odd",), False),
]


def shards(tier):
    out = []
    for (n, b, kinds, pals, labs, full) in (LEVELS_QUICK if tier == "quick" else LEVELS_THOROUGH):
        topos = sp.topologies(n, b)
        allk = list(itertools.product(kinds, repeat=b))
        per = max(1, 3000 // (max(1, (2 ** b) * n * len(pals) * len(labs) * (2 if not full else 6))) + 1)
        for ti in range(len(topos)):
            for ch in sp.chunks(range(len(allk)), per):
                out.append(("N(%d,%d)|K%d" % (n, b, len(kinds)), (n, b, ti, kinds, ch[0], ch[-1] + 1, pals, labs, full)))
    out += selfloop_shards(tier)
    nfam = sum(1 for _ in cm.structured_netlists(tier))
    for i in range(0, nfam, 4):
        out.append(("structured families (ladders, rings, complete graphs)", ("fam", i, min(nfam, i + 4), tier)))
    return out


SELF_KINDS = ("Z", "Y", "I", "LI", "LV", "load")


def selfloop_shards(tier):
    """well-posed base networks plus ONE extra branch whose two terminals are the same node (a shorted element)"""
    out = []
    bases = [(2, 1, cm.KINDS7), (2, 2, cm.KINDS7), (3, 2, cm.KINDS7), (3, 3, cm.KINDS3 if tier == "quick" else cm.KINDS7)]
    for (n, b, kinds) in bases:
        for ti in range(len(sp.topologies(n, b))):
            out.append(("self-loop N(%d,%d)+1|K%d" % (n, b, len(kinds)), ("self", n, b, ti, kinds)))
    return out


def run_selfloop(desc, res):
    _, n, b, ti, kinds = desc
    topo = sp.topologies(n, b)[ti]
    keys = set()
    for kt in itertools.product(kinds, repeat=b):
        if not cm.class_well_posed(topo, kt, "real"):
            res["evals"] += 1
            bump(res["skipped"], "ill_posed_class")
            continue
        for orient in (0, 2 ** b - 1):
            for ref_idx in range(n):
                labels = labels_for("plain" if ref_idx % 2 == 0 else "odd", n)
                base = cm.build_netlist(topo, kt, orient, ref_idx, labels, "real", sp.IDS_ASC[:b])
                for node in labels:
                    for sk in SELF_KINDS:
                        for pos in (0, b):
                            extra = cm.build_netlist(((0, 1),), (sk,), 0, 0, (node, node), "real", ["self"])["branches"][0]
                            extra[4] = [x if not isinstance(x, int) else x + 40 for x in extra[4]]
                            br = list(base["branches"])
                            br.insert(pos, extra)
                            res["evals"] += 1
                            judge({"ref": base["ref"], "branches": br}, "real", res, keys)


LABELS_LONG = ["0", "1", "2", "3", "4", "5", "6", "7", "8", "9", "10", "11"]
LABELS_LONG_ODD = ["a", "Ba", "9", "109", "_x", "Zz", "b2a", "0x", "C", "c", "100", "Aa"]


def run_families(desc, res):
    _, i0, i1, tier = desc
    keys = set()
    for idx, (fam, br) in enumerate(cm.structured_netlists(tier)):
        if idx < i0 or idx >= i1:
            continue
        nn = 1 + max(max(int(b[0][1:]), int(b[1][1:])) for b in br)
        for pal in (("real", "cplx", "dec") if tier == "thorough" else ("real", "cplx")):
            for labels in (LABELS_LONG, LABELS_LONG_ODD):
                for ids_desc in (False, True):
                    for flip in (0, 0b0101010101010101, 0b1111111111111111):
                        branches = cm.instantiate(br, pal, labels, ids_desc, flip)
                        nl0 = {"ref": labels[0], "branches": branches}
                        res["evals"] += nn
                        if not rn.well_posed(nl0):
                            bump(res["skipped"], "ill_posed_family_member", nn)
                            continue
                        for r in range(nn):
                            judge({"ref": labels[r], "branches": branches}, pal, res, keys)


def labels_for(name, n):
    if name == "ids":
        # node labels that are also branch ids of the same network (separate name spaces), in an order that differs from the ids' order
        return tuple(reversed(sp.IDS_ASC[:max(n, 2)]))[:n]
    return sp.LABELS_PLAIN[:n] if name == "plain" else sp.LABELS_ODD[:n]


def run_shard(desc):
    res = new_result()
    if desc[0] == "self":
        run_selfloop(desc, res)
        return res
    if desc[0] == "fam":
        run_families(desc, res)
        return res
    n, b, ti, kinds, k0, k1, pals, labs, full = desc
    topo = sp.topologies(n, b)[ti]
    allk = list(itertools.product(kinds, repeat=b))
    keys = set()
    for kt in allk[k0:k1]:
        for pal in pals:
            nvar = (2 ** b) * n * len(labs) * len(cm.id_schemes(b, full))
            if not cm.class_well_posed(topo, kt, pal):
                res["evals"] += nvar
                bump(res["skipped"], "ill_posed_class", nvar)
                continue
            for orient in range(2 ** b):
                for lab in labs:
                    labels = labels_for(lab, n)
                    for ref_idx in range(n):
                        for ids in cm.id_schemes(b, full):
                            nl = cm.build_netlist(topo, kt, orient, ref_idx, labels, pal, ids)
                            res["evals"] += 1
                            judge(nl, pal, res, keys)
    return res


def replay(case):
    res = new_result()
    judge(case["netlist"], case.get("palette", "real"), res, set())
    return res["violations"]


def _same(a, b):
    return all(x == y or (x != x and y != y) for x, y in zip(a, b))


def judge(nl, pal, res, keys):
    case = {"netlist": nl, "palette": pal}
    keys_len = len(keys)
    keys.add(hash(repr(nl)))
    if len(keys) > keys_len:
        res["states"] += 1
    rtol = cm.rtol_for(pal)
    if pal == "wide":
        # nodal analysis in binary64 loses about log10(Ymax/Ymin) digits: judge only spans of up to eight decades
        ys = [abs(complex(y)) for y in (rn.immittance(b)[1] for b in nl["branches"]) if y is not None and y]
        if (ys and max(ys) / min(ys) > 1e8) or cm.tableau_condition(nl) > 1e8:
            bump(res["skipped"], "admittances_span_more_than_8_decades")
            return
    phi_ref, cur_ref = cm.float_tableau_solution(nl)
    s_phi, s_i = cm.scales(nl, phi_ref, cur_ref)
    nontrivial = any(abs(v) > 1e-12 * s_phi for v in phi_ref.values()) or any(abs(v) > 1e-12 * s_i for v in cur_ref.values())
    res["transitions"] += 1
    try:
        from CircuitCalculator.Network.NodalAnalysis.bias_point_analysis import nodal_analysis_bias_point_solver
        net = adapt.network(nl)
        sol = nodal_analysis_bias_point_solver(net)
        nodes = rn.nodes_of(nl)
        phi = {nd: complex(sol.get_potential(nd)) for nd in nodes}
        V = {}
        I = {}
        P = {}
        for br in nl["branches"]:
            V[br[3]] = complex(sol.get_voltage(br[3]))
            I[br[3]] = complex(sol.get_current(br[3]))
            P[br[3]] = complex(sol.get_power(br[3]))
        # the same solution object asked again in the opposite order, and a second object asked powers-first (three questions)
        again = {}
        for br in reversed(nl["branches"]):
            again[br[3]] = (complex(sol.get_power(br[3])), complex(sol.get_current(br[3])), complex(sol.get_voltage(br[3])))
        phi_again = {nd: (complex(sol.get_potential(nd)),) for nd in reversed(nodes)}
        # the second object is built from the same numbers given as NumPy scalars (np.float64 / np.complex128)
        sol2 = nodal_analysis_bias_point_solver(adapt.network(nl, numpy_scalars=True))
        last, first = nl["branches"][-1][3], nl["branches"][0][3]
        fresh = (complex(sol2.get_power(last)), complex(sol2.get_current(first)), complex(sol2.get_potential(nodes[-1])))
    except Exception as e:  # a valid network never fails to solve
        bump(res["hits"], "never_fails")
        add_violation(res, "never_fails", case, "a solution", "%s: %s" % (type(e).__name__, e),
                      "well-posed network raised", kind="exception:" + type(e).__name__)
        return
    if nontrivial:
        res["nontrivial"] += 1
    res["fps"].add(fp(*[phi[nd] for nd in nodes], *[I[br[3]] for br in nl["branches"]]))
    if len(res["samples"]) < 2 and nontrivial:
        res["samples"].append({"netlist": nl, "potentials": {k: [v.real, v.imag] for k, v in phi.items()}})
    tol_v = rtol * s_phi
    tol_i = rtol * s_i
    tol_p = rtol * s_phi * s_i
    bad = False
    # never_fails: all-zero fallback
    bump(res["hits"], "never_fails")
    if nontrivial and all(abs(v) == 0 for v in phi.values()) and any(abs(v) > 1e-6 * s_phi for v in phi_ref.values()):
        add_violation(res, "never_fails", case, "non-zero solution", "all-zero fallback vector",
                      "solver silently fell back to zeros", kind="zero_fallback")
        return
    bump(res["hits"], "query_order")
    for br in nl["branches"]:
        first_ans = (P[br[3]], I[br[3]], V[br[3]])
        if not _same(again[br[3]], first_ans):
            add_violation(res, "query_order", case, first_ans, again[br[3]], "power/current/voltage of %s depend on the order in which results are asked for" % br[3])
            return
    for nd in nodes:
        if not _same(phi_again[nd], (phi[nd],)):
            add_violation(res, "query_order", case, phi[nd], phi_again[nd], "potential of %s depends on the order in which results are asked for" % nd)
            return
    # (NumPy and Python complex arithmetic may round differently in the last place: compared to the tolerance of the case)
    if not (abs(fresh[0] - P[last]) <= tol_p and abs(fresh[1] - I[first]) <= tol_i and abs(fresh[2] - phi[nodes[-1]]) <= tol_v):
        add_violation(res, "query_order", case, (P[last], I[first], phi[nodes[-1]]), fresh, "a second solution object (values given as NumPy scalars, asked powers-first) answers differently")
        return
    # kvl_ref_zero
    bump(res["hits"], "kvl_ref_zero")
    if abs(phi[nl["ref"]]) != 0:
        add_violation(res, "kvl_ref_zero", case, 0, phi[nl["ref"]], "reference potential not zero")
        bad = True
    for br in nl["branches"]:
        if abs(V[br[3]] - (phi[br[0]] - phi[br[1]])) > tol_v:
            add_violation(res, "kvl_ref_zero", case, phi[br[0]] - phi[br[1]], V[br[3]], "voltage of %s is not phi1-phi2" % br[3])
            bad = True
    # kcl at every node including the reference node
    bump(res["hits"], "kcl_all_nodes")
    for nd in nodes:
        s = 0j
        for br in nl["branches"]:
            i_net = -I[br[3]] if rn.reports_generator_direction(br) else I[br[3]]
            if br[0] == nd:
                s += i_net
            if br[1] == nd:
                s -= i_net
        if abs(s) > tol_i * max(1, len(nl["branches"])):
            add_violation(res, "kcl_all_nodes", case, 0, s, "currents do not balance at node %s" % nd)
            bad = True
            break
    # element laws on the reported numbers
    for br in nl["branches"]:
        kind, bid, p = br[2], br[3], br[4]
        bump(res["hits"], "element_law:" + kind)
        v, i = V[bid], I[bid]
        ok = True
        if kind == "Z":
            z = rn.c(p[0])
            ok = abs(v - z * i) <= tol_v + abs(z) * tol_i
            exp = z * i
        elif kind == "Y":
            y = rn.c(p[0])
            ok = abs(i - y * v) <= tol_i + abs(y) * tol_v
            exp = y * v
        elif kind == "load":
            y = rn.c(p[0]) / rn.c(p[1]) ** 2
            ok = abs(i - y * v) <= tol_i + abs(y) * tol_v
            exp = y * v
        elif kind == "V":
            ok = abs(v - rn.c(p[0])) <= tol_v
            exp = rn.c(p[0])
        elif kind == "I":
            ok = abs(i - rn.c(p[0])) <= tol_i
            exp = rn.c(p[0])
        elif kind == "LV":
            # generator convention: -I_rep = (V + v)/Z
            z = rn.c(p[1])
            exp = -(rn.c(p[0]) + v) / z
            ok = abs(i - exp) <= tol_i + tol_v / abs(z)
        elif kind == "LI":
            y = rn.c(p[1])
            exp = -(rn.c(p[0]) + y * v)
            ok = abs(i - exp) <= tol_i + abs(y) * tol_v
        if not ok:
            add_violation(res, "element_law", case, exp, (v, i), "branch %s (%s) violates its own v-i relation" % (bid, kind))
            bad = True
        if abs(P[bid] - v * i.conjugate()) > tol_p:
            add_violation(res, "element_law", case, v * i.conjugate(), P[bid], "power of %s is not V*conj(I)" % bid)
            bad = True
    # differential agreement with the independent tableau solution
    bump(res["hits"], "matches_exact")
    for nd in nodes:
        if abs(phi[nd] - phi_ref[nd]) > tol_v:
            add_violation(res, "matches_exact", case, phi_ref[nd], phi[nd], "potential of node %s" % nd)
            bad = True
            break
    for br in nl["branches"]:
        exp = -cur_ref[br[3]] if rn.reports_generator_direction(br) else cur_ref[br[3]]
        if abs(I[br[3]] - exp) > tol_i:
            add_violation(res, "matches_exact", case, exp, I[br[3]], "current of branch %s (%s)" % (br[3], br[2]))
            bad = True
            break
    return bad


def vacuity(agg, tier):
    out = []
    need = ["kcl_all_nodes", "kvl_ref_zero", "matches_exact"] + ["element_law:" + k for k in cm.KINDS7]
    for k in need:
        if agg["hits"].get(k, 0) == 0:
            out.append("sub-check %s never fired" % k)
    if agg["states"] < 0.05 * max(1, agg["evals"]):
        out.append("fewer than 5%% of inputs inside the domain (%d of %d)" % (agg["states"], agg["evals"]))
    if len(agg["fps"]) < 1000:
        out.append("only %d distinct outcomes" % len(agg["fps"]))
    return out
