"""C11 - derived dynamics are passive and stable (shape S)."""
import itertools
from fractions import Fraction as F
import numpy as np

from mc import space as sp
from mc import adapt
from mc.ref import circuit as rc
from mc.ref import dynamics as rd
from mc.runner import new_result, bump, fp, add_violation
from . import dyn
from . import c10

ID = "C11"
LEVEL = "model_checking"
RULE = ("the circuit space of C10 (every topology of the listed levels x kinds {R,C,L,V,I} with 1..3 reactive elements and "
        "1..2 sources x orientation x id scheme, positive values, prime, decades and physical-unit palettes (ohms..megohms, picofarads..millifarads, nanohenries..henries); plus ladders with up to 6 (thorough 8) states), judged when non-degenerate "
        "(exact); for each the state matrix is tested for W*A + A^T*W <= 0 with W = diag(C..., L...) and for eigenvalues in the "
        "closed left half plane; for every non-degenerate class of the small levels the real TransientSolution is run for each "
        "pulse shape {step up/down as one-sample ramps, ramp, triangle} on each source and the stored energy computed from "
        "the library's capacitor voltages and inductor currents must be non-increasing at every sample after the input has "
        "returned to zero; states = distinct circuits judged, transitions = matrix tests + simulations; non-trivial = circuit "
        "with a non-zero state matrix / a simulation that stores energy")
ASSUMPTIONS = ["numpy eigenvalue accuracy (tolerance 1e-9 relative to |W A|)", "scipy.signal.lsim is exact at the samples for piecewise-linear inputs"]
EXPLANATION = "direct exploration of the real state matrix and the real transient simulation"


def budget_s(tier):
    return 600 if tier == "quick" else 3600


LEVELS_QUICK = [(2, 2, "perm", ("real", "dec", "phys")), (2, 3, "perm", ("real", "dec", "phys")), (3, 3, "three", ("real", "dec", "phys")), (3, 4, "two", ("real", "phys"))]
LEVELS_THOROUGH = [(2, 2, "perm", ("real", "dec", "phys")), (2, 3, "perm", ("real", "dec", "phys")), (3, 3, "perm", ("real", "dec", "phys")), (3, 4, "three", ("real", "dec", "phys")), (4, 4, "two", ("real", "phys")), (4, 5, "two", ("real",))]
SIM_LEVELS_QUICK = [(2, 2), (2, 3), (3, 3)]
SIM_LEVELS_THOROUGH = [(2, 2), (2, 3), (3, 3), (3, 4)]
PULSES = ["step_up_down", "ramp", "triangle", "negative_step"]


def shards(tier):
    out = []
    for (n, b, mode, pals) in (LEVELS_QUICK if tier == "quick" else LEVELS_THOROUGH):
        topos = sp.topologies(n, b)
        allk = dyn.kind_tuples(b)
        per = max(1, 600 // (2 ** b * len(c10.id_lists(b, mode)) * len(pals)))
        for ti in range(len(topos)):
            for ch in sp.chunks(range(len(allk)), per):
                out.append(("A-matrix RLC(%d,%d)|ids:%s" % (n, b, mode), ("A", n, b, ti, ch[0], ch[-1] + 1, mode, pals)))
    for li in range(len(dyn.LADDERS)):
        out.append(("ladders: A-matrix and energy (up to %d states)" % (6 if tier == "quick" else 8), ("LAD", li, 3 if tier == "quick" else 4)))
    for (n, b) in (SIM_LEVELS_QUICK if tier == "quick" else SIM_LEVELS_THOROUGH):
        topos = sp.topologies(n, b)
        allk = [kt for kt in itertools.product(dyn.DK, repeat=b) if dyn.admissible(kt)]
        for ti in range(len(topos)):
            for ch in sp.chunks(range(len(allk)), 6):
                out.append(("energy RLC(%d,%d)" % (n, b), ("E", n, b, ti, ch[0], ch[-1] + 1)))
    return out


def run_shard(desc):
    res = new_result()
    if desc[0] == "LAD":
        src, ser, shu = dyn.LADDERS[desc[1]]
        for nsec in range(1, desc[2] + 1):
            for scheme in ("asc", "desc", "mix"):
                for flip in (False, True):
                    d = dyn.ladder(src, ser, shu, nsec, scheme, flip, nsec % 2)
                    res["evals"] += 1
                    ok, why = rd.non_degenerate(d)
                    if not ok:
                        bump(res["skipped"], why)
                        continue
                    judge_matrix(d, res)
                    if scheme != "asc":
                        judge_energy(d, PULSES[nsec % len(PULSES)], res)
        return res
    if desc[0] == "A":
        _, n, b, ti, k0, k1, mode, pals = desc
        topo = sp.topologies(n, b)[ti]
        allk = [kt for kt in itertools.product(dyn.DK, repeat=b) if dyn.admissible(kt)]
        idl = c10.id_lists(b, mode)
        for kt in allk[k0:k1]:
            for pal in pals:
                nvar = (2 ** b) * len(idl)
                res["evals"] += nvar
                ok, why = dyn.class_non_degenerate(topo, kt, pal)
                if not ok:
                    bump(res["skipped"], why, nvar)
                    continue
                for orient in range(2 ** b):
                    for ii, ids in enumerate(idl):
                        d = dyn.build(topo, kt, orient, ids, (orient + ii) % n, labels=dyn.labels_for(orient, ii, n), pal=pal)
                        judge_matrix(d, res)
    else:
        _, n, b, ti, k0, k1 = desc
        topo = sp.topologies(n, b)[ti]
        allk = [kt for kt in itertools.product(dyn.DK, repeat=b) if dyn.admissible(kt)]
        for kt in allk[k0:k1]:
            ok, why = dyn.class_non_degenerate(topo, kt)
            res["evals"] += 2 * len(PULSES)
            if not ok:
                bump(res["skipped"], why, 2 * len(PULSES))
                continue
            for orient, scheme in ((0b0101 & (2 ** b - 1), "mix"), (0b1010 & (2 ** b - 1), "desc")):
                d = dyn.build(topo, kt, orient, dyn.ID_SCHEMES[scheme][:b], orient % n)
                for pulse in PULSES:
                    judge_energy(d, pulse, res)
    return res


def replay(case):
    res = new_result()
    if "pulse" in case:
        judge_energy(case["circuit"], case["pulse"], res)
    else:
        judge_matrix(case["circuit"], res)
    return res["violations"]


def judge_matrix(d, res):
    case = {"circuit": d}
    res["states"] += 1
    res["transitions"] += 1
    caps, inds = rd.reactive(d)
    try:
        circ, ssm = dyn.library_models(d)
        A = np.asarray(ssm.A, dtype=float)
    except Exception as e:
        add_violation(res, "lyapunov_nsd", case, "a model", "%s: %s" % (type(e).__name__, e), "model construction raised", kind="exception:" + type(e).__name__)
        return
    W = np.diag([rc.fl(c[3]["C"]) for c in caps] + [rc.fl(c[3]["L"]) for c in inds])
    if A.shape != W.shape or not np.all(np.isfinite(A)):
        add_violation(res, "lyapunov_nsd", case, list(W.shape), list(A.shape), "state matrix has the wrong shape or non-finite entries")
        return
    WA = W @ A
    S = WA + WA.T
    scale = max(np.abs(WA).max(), 1e-300)
    bump(res["hits"], "lyapunov_nsd")
    lam = np.linalg.eigvalsh((S + S.T) / 2)
    if lam.max() > 1e-9 * scale:
        add_violation(res, "lyapunov_nsd", case, "<= 0", float(lam.max()), "W*A + A^T*W has a positive eigenvalue: stored energy can grow without excitation")
    bump(res["hits"], "eigs_left_half_plane")
    ev = np.linalg.eigvals(A)
    if ev.real.max() > 1e-9 * max(np.abs(ev).max(), 1e-300):
        add_violation(res, "eigs_left_half_plane", case, "Re <= 0", [complex(x) for x in ev], "a natural frequency has a positive real part")
    if np.abs(A).max() > 0:
        res["nontrivial"] += 1
    res["fps"].add(fp(*[complex(x) for x in sorted(ev, key=lambda z: (round(z.real, 9), round(z.imag, 9)))]))
    if len(res["samples"]) < 1:
        res["samples"].append({"circuit": d, "eigenvalues": [[float(x.real), float(x.imag)] for x in ev]})


def pulse_fn(name, t_end, amp):
    """piecewise-linear pulse with breakpoints on the grid, zero for t >= t_end"""
    def f(t):
        t = np.asarray(t, dtype=float)
        x = t / t_end
        if name == "step_up_down":
            return amp * np.where((x > 0) & (x < 1), 1.0, 0.0)
        if name == "negative_step":
            return -amp * np.where((x > 0) & (x < 0.5), 1.0, 0.0)
        if name == "ramp":
            return amp * np.where(x < 1, x, 0.0)
        if name == "triangle":
            return amp * np.where(x < 0.5, 2 * x, np.where(x < 1, 2 - 2 * x, 0.0))
        raise ValueError(name)
    return f


def judge_energy(d, pulse, res):
    from CircuitCalculator.Circuit.solution import TransientSolution
    case = {"circuit": d, "pulse": pulse}
    res["states"] += 1
    caps, inds = rd.reactive(d)
    srcs = rd.sources(d)
    try:
        circ, ssm = dyn.library_models(d)
        ev = np.linalg.eigvals(np.asarray(ssm.A, dtype=float))
        rate = max(np.abs(ev).max(), 1e-6)
        slow = max(min([abs(x.real) for x in ev if abs(x.real) > 1e-9 * rate] + [rate]), rate / 200)
        h = 1 / (20 * rate)
        n_pulse = 40
        n_total = n_pulse + int(min(4000, max(200, 6 / slow / h)))
        t = np.arange(n_total + 1) * h
        t_end = n_pulse * h
        inputs = {}
        for k, s in enumerate(srcs):
            amp = rc.fl(s[3]["V"] if s[0] == "dc_voltage_source" else s[3]["I"])
            inputs[s[1]] = pulse_fn(pulse if k == 0 else PULSES[(PULSES.index(pulse) + 1) % len(PULSES)], t_end, amp)
        sol = TransientSolution(circuit=circ, tin=t, input=inputs)
        res["transitions"] += 1
        E = np.zeros(len(t))
        for c in caps:
            v = np.asarray(sol.get_voltage(c[1])[1], dtype=float)
            E = E + 0.5 * rc.fl(c[3]["C"]) * v * v
        for l in inds:
            i = np.asarray(sol.get_current(l[1])[1], dtype=float)
            E = E + 0.5 * rc.fl(l[3]["L"]) * i * i
    except Exception as e:
        add_violation(res, "energy_nonincreasing", case, "a simulation", "%s: %s" % (type(e).__name__, e), "transient simulation raised", kind="exception:" + type(e).__name__)
        return
    bump(res["hits"], "energy_nonincreasing")
    bump(res["hits"], "bounded_response")
    if not np.all(np.isfinite(E)):
        add_violation(res, "bounded_response", case, "finite", "nan/inf", "simulated response is not finite")
        return
    Emax = float(E.max())
    if Emax > 0:
        res["nontrivial"] += 1
    tail = E[n_pulse + 1:]
    inc = np.diff(tail)
    if len(inc) and inc.max() > 1e-9 * max(Emax, 1e-300):
        k = int(np.argmax(inc))
        add_violation(res, "energy_nonincreasing", dict(case, sample=n_pulse + 1 + k), "E[k+1] <= E[k]", [float(tail[k]), float(tail[k + 1])],
                      "stored energy grows after all sources have returned to zero")
    if len(tail) and tail.max() > Emax * (1 + 1e-9) + 1e-300:
        add_violation(res, "bounded_response", case, "<= %r" % Emax, float(tail.max()), "response after the pulse exceeds the energy stored during the pulse")
    res["fps"].add(fp(float(Emax), float(tail[-1]) if len(tail) else 0.0))
    if len(res["samples"]) < 2:
        res["samples"].append({"circuit": d, "pulse": pulse, "E_max": Emax, "E_end": float(E[-1]), "samples": len(t)})


def vacuity(agg, tier):
    out = []
    for k in ("lyapunov_nsd", "eigs_left_half_plane", "energy_nonincreasing", "bounded_response"):
        if agg["hits"].get(k, 0) == 0:
            out.append("sub-check %s never fired" % k)
    return out
