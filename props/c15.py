"""C15 - saving, reloading and declarative descriptions preserve the circuit (shape G)."""
import copy
import itertools
import json
from fractions import Fraction as F

from mc import adapt
from mc.ref import drawing as rdw
from mc.runner import new_result, bump, fp, add_violation
from . import c13

ID = "C15"
LEVEL = "model_checking"
RULE = ("(1) save/load: states are drawings over the persistable symbol set; initial states = every filling of the 2x2 lattice "
        "edges with {nothing, wire, resistor, DC voltage source with either reversal flag} x ground {origin, last point} and every "
        "persistable symbol kind (both reversal flags, both directions) in a one-loop context; transition = JSON "
        "serialize + deserialize of the real Schematic; the search follows reload-of-reload until the canonical translation "
        "repeats (at least 3 cycles); after every transition the translation must equal the original's (components, values, "
        "terminal order, connectivity up to node renaming, reference node, DC solution); (2) declarative lists: a voltage "
        "source followed by two elements from {resistor, line, capacitor} x every direction of each x every place_after option "
        "x length {1,2} on the first element, closed by a ground, plus every kind of the handler table x direction x reversal; "
        "create_schematic must give the circuit of the placement program with the same geometry (C13 reference), and must not "
        "modify its input dictionary; states = distinct drawings/lists, transitions = save-load cycles and create_schematic calls; "
        "non-trivial = drawing with a symbol"
        ' Additions: comparison canonical in the listing order; drawings without ground symbol in both drawing orders; terminal potentials; four-element declarative lists with place_after on the second/third element.')
ASSUMPTIONS = ["schemdraw geometry", "YAML round trips are outside the statement (JSON only)"]
EXPLANATION = "explicit exploration of save/load cycles and declarative construction on the real code"


def budget_s(tier):
    return 1200 if tier == "quick" else 3600


def edge_options(tier):
    return [None, ("wire", False), ("R", False), ("V", False, False), ("V", True, True)] + ([("R", True), ("V", False, True), ("V", True, False), ("C", False)] if tier == "thorough" else [])


def shards(tier):
    out = []
    n = len(edge_options(tier))
    for a in range(n):
        for b in range(n):
            out.append(("save/load 2x2 lattice", ("SL", a, b, tier)))
    for k in range(len(persistable_cases())):
        out.append(("save/load kinds", ("SK", k)))
    for k2 in ("resistor", "line", "capacitor"):
        for k3 in ("resistor", "line", "capacitor"):
            for d1 in DIRS:
                out.append(("declarative lists", ("DL", k2, k3, d1)))
    for k in range(len(handler_cases())):
        out.append(("declarative kinds", ("DK", k)))
    for k in range(len(SUBDIVISIONS)):
        out.append(("declarative loops closed over another subdivision", ("DT", k)))
    return out


def run_shard(desc):
    res = new_result()
    res["state_keys"] = set()
    if desc[0] == "SL":
        _, a, b, tier = desc
        opts = edge_options(tier)
        for c in range(len(opts)):
            for d_ in range(len(opts)):
                sel = [opts[a], opts[b], opts[c], opts[d_]]
                base = [c13.make_item(o, c13.EDGES2[k], k) for k, o in enumerate(sel) if o is not None]
                if not any(it["op"] == "sym" for it in base):
                    continue
                touched = sorted({tuple(it[k]) for it in base for k in ("p", "q")})
                for g in sorted({touched[0], touched[-1]}):
                    judge_save_load(base + [{"op": "ground", "p": list(g)}], res)
                # no ground symbol: the reference node is the first terminal of the first symbol drawn, also after reloading
                # (drawn in the given and in the reverse order, so that first-drawn and alphabetically-first differ)
                judge_save_load(base, res)
                judge_save_load(list(reversed(base)), res)
    elif desc[0] == "SK":
        kind, params = persistable_cases()[desc[1]]
        is_src = kind in rdw.VOLTAGE_KINDS or kind in rdw.CURRENT_KINDS
        for fwd in (True, False):
            for rev in ((False, True) if is_src else (False,)):
                p, q = ((0, 0), (0, 1)) if fwd else ((0, 1), (0, 0))
                sym = {"op": "sym", "kind": kind, "name": "X1", "p": list(p), "q": list(q), "params": params}
                if is_src:
                    sym["reverse"] = rev
                prog = [sym, {"op": "sym", "kind": "resistor", "name": "Rload", "p": [0, 1], "q": [1, 1], "params": {"R": 5.0}}, {"op": "wire", "p": [1, 1], "q": [1, 0]},
                        {"op": "wire", "p": [1, 0], "q": [0, 0]}, {"op": "ground", "p": [0, 0]}]
                bump(res["hits"], "kind:" + kind)
                judge_save_load(prog, res, w_list=(0.0, 1.0))
    elif desc[0] == "DL":
        run_declarative_lists(desc[1], desc[2], desc[3], res)
    elif desc[0] == "DT":
        run_subdivided_loop(SUBDIVISIONS[desc[1]], res)
    else:
        judge_declarative(handler_cases()[desc[1]], res, kind_case=True)
    return res


def replay(case):
    res = new_result()
    res["state_keys"] = set()
    if "declarative" in case:
        judge_declarative(case["declarative"], res)
    else:
        judge_save_load(case["program"], res, w_list=case.get("w_list", (0.0,)))
    return res["violations"]


def persistable_cases():
    return [(k, p) for (k, p) in c13.kind_cases() if k in ("resistor", "conductance", "impedance", "capacitor", "inductance", "dc_v", "dc_i", "complex_v", "complex_i", "ac_v", "ac_i", "rect_v", "rect_i")]


# ------------------------------------------------------------------ save / load
def circuit_signature(circ):
    """translation up to a renaming of nodes: (components with canonical node numbers, ground number)"""
    ren = {}
    comps = []
    # listing order is not part of the circuit: canonical order by identifier (the ground component, if any, last)
    for c in sorted(circ.components, key=lambda c: (c.type == "ground", c.id)):
        nodes = []
        for n in c.nodes:
            if n not in ren:
                ren[n] = len(ren)
            nodes.append(ren[n])
        comps.append([c.type, c.id, nodes, sorted((k, repr(v)) for k, v in c.value.items())])
    return {"components": comps, "ground": ren.get(circ.ground_node, circ.ground_node)}


def judge_save_load(prog, res, w_list=(0.0,)):
    from CircuitCalculator.SimpleCircuit import dump_load as sdl
    from CircuitCalculator.SimpleCircuit.DiagramTranslator import circuit_translator
    from CircuitCalculator.Circuit.solution import ComplexSolution
    case = {"program": prog, "w_list": list(w_list)}
    res["state_keys"].add(hash(c13.key_of(prog)))
    try:
        sch = adapt.build_schematic(prog, {}, "dir")
        circ0 = circuit_translator(sch)
        sig0 = circuit_signature(circ0)
    except Exception as e:
        bump(res["skipped"], "original_not_translatable:" + type(e).__name__)
        return
    # the original itself must be the intended circuit (C13 oracle), otherwise comparing reloads means nothing
    tmp = new_result()
    tmp["state_keys"] = set()
    c13.judge_schematic(sch, prog, dict(case), tmp, w_list)
    if tmp["violations"]:
        bump(res["skipped"], "original_mistranslated_(C13)")
        return
    seen = [json.dumps(sig0, sort_keys=True)]
    res["nontrivial"] += 1
    cur = sch
    for cycle in range(1, 5):
        res["transitions"] += 1
        res["evals"] += 1      # one evaluation = one save/load cycle (or one create_schematic call) judged
        try:
            text = sdl.serialize(cur, "json")
            cur = sdl.deserialize(text, "json")
            circ = circuit_translator(cur)
            sig = circuit_signature(circ)
        except Exception as e:
            add_violation(res, "roundtrip_components", dict(case, cycle=cycle), "a reloaded drawing", "%s: %s" % (type(e).__name__, e), "save/load cycle %d raised" % cycle, kind="exception:" + type(e).__name__)
            return
        bump(res["hits"], "roundtrip_components")
        g0 = [[c[0], c[1], c[3]] for c in sig0["components"]]
        g1 = [[c[0], c[1], c[3]] for c in sig["components"]]
        if g0 != g1:
            add_violation(res, "roundtrip_components", dict(case, cycle=cycle), g0, g1, "components (ids, kinds, values) changed in save/load cycle %d" % cycle)
            return
        bump(res["hits"], "roundtrip_connectivity_and_ground")
        if [c[2] for c in sig0["components"]] != [c[2] for c in sig["components"]] or sig0["ground"] != sig["ground"]:
            add_violation(res, "roundtrip_connectivity_and_ground", dict(case, cycle=cycle), [[c[1], c[2]] for c in sig0["components"]] + [sig0["ground"]],
                          [[c[1], c[2]] for c in sig["components"]] + [sig["ground"]], "connectivity, terminal order or reference node changed in save/load cycle %d" % cycle)
            return
        bump(res["hits"], "roundtrip_solution")
        for w in w_list:
            try:
                s0 = ComplexSolution(circuit=circ0, w=w, peak_values=True)
                s1 = ComplexSolution(circuit=circ, w=w, peak_values=True)
                for c in circ0.components:
                    if c.type == "ground":
                        continue
                    a, b = complex(s0.get_current(c.id)), complex(s1.get_current(c.id))
                    v0, v1 = complex(s0.get_voltage(c.id)), complex(s1.get_voltage(c.id))
                    c1 = circ[c.id]
                    for n0, n1 in zip(c.nodes, c1.nodes):
                        p0, p1 = complex(s0.get_potential(n0)), complex(s1.get_potential(n1))
                        if abs(p0 - p1) > 1e-9 * max(1, abs(p0)):
                            add_violation(res, "roundtrip_solution", dict(case, cycle=cycle, w=w), p0, p1, "potential at a terminal of %s changed in save/load cycle %d" % (c.id, cycle))
                            return
                    if abs(a - b) > 1e-9 * max(1, abs(a)) or abs(v0 - v1) > 1e-9 * max(1, abs(v0)):
                        add_violation(res, "roundtrip_solution", dict(case, cycle=cycle, w=w), [v0, a], [v1, b], "solution of %s changed in save/load cycle %d" % (c.id, cycle))
                        return
            except Exception as e:
                # an ill-posed drawing has no solution before or after
                bump(res["skipped"], "solution:" + type(e).__name__)
                break
        bump(res["hits"], "reload_closure")
        key = json.dumps(sig, sort_keys=True)
        res["fps"].add(hash(key) & 0xFFFFFFFFFFFF)
        if key in seen and cycle >= 3:
            break
        seen.append(key)
    if len(res["samples"]) < 1:
        res["samples"].append({"program": prog, "cycles": cycle, "signature": sig0})


# ------------------------------------------------------------------ declarative element lists
DIRS = {"right": (1, 0), "left": (-1, 0), "up": (0, 1), "down": (0, -1)}


def decl_values(kind, i):
    if kind == "resistor":
        return {"R": float(10 + i)}, ("resistor", {"R": float(10 + i)})
    if kind == "capacitor":
        return {"C": 0.5 + i}, ("capacitor", {"C": 0.5 + i})
    if kind == "inductance":
        return {"L": 0.25 + i}, ("inductance", {"L": 0.25 + i})
    if kind == "conductance":
        return {"G": 0.125}, ("conductance", {"G": 0.125})
    if kind == "impedance":
        return {"Z": complex(3, -4)}, ("impedance", {"Z": [3.0, -4.0]})
    if kind == "lamp":
        return {"V_ref": 12.0, "P_ref": 6.0}, ("lamp", {"V_ref": 12.0, "P_ref": 6.0})
    if kind == "voltage_source":
        return {"V": 1.5}, ("dc_v", {"V": 1.5})
    if kind == "current_source":
        return {"I": 0.5}, ("dc_i", {"I": 0.5})
    if kind == "ac_voltage_source":
        return {"V": 2.0, "w": 1.0, "phi": 0.5}, ("ac_v", {"V": 2.0, "w": 1.0, "phi": 0.5})
    if kind == "ac_current_source":
        return {"I": 2.0, "w": 1.0, "phi": 0.5}, ("ac_i", {"I": 2.0, "w": 1.0, "phi": 0.5})
    if kind == "complex_voltage_source":
        return {"V": complex(1, 2)}, ("complex_v", {"V": [1.0, 2.0]})
    if kind == "complex_current_source":
        return {"I": complex(0.5, -1)}, ("complex_i", {"I": [0.5, -1.0]})
    raise ValueError(kind)


def decl_program(elements):
    """reference geometry of a declarative list: each element starts where the previous one ended (or at the end of the
    element named by place_after) and extends length lattice units in its direction; node-like elements have no extent"""
    here = (0, 0)
    ends = {}
    prog = []
    for k, e in enumerate(elements):
        start = ends[e["place_after"]] if e.get("place_after") is not None else here
        t = e["type"]
        if t in ("ground", "node"):
            # the declarative factory passes name='' to a ground that is given no name: the reference node is then called ''
            prog.append({"op": "ground", "p": list(start), "name": e.get("name", "")} if t == "ground" else {"op": "label", "name": e["name"], "p": list(start)})
            end = start
        else:
            dx, dy = DIRS[e.get("direction", "right")]
            L = e.get("length", 1)
            if isinstance(L, str):
                L = F(L)            # lengths that are no short decimals ("1/3") are kept exact on the reference side
            end = (start[0] + dx * L, start[1] + dy * L)
            if t == "line" and "name" not in e:
                prog.append({"op": "wire", "p": list(start), "q": list(end)})
            elif t == "line":
                prog.append({"op": "sym", "kind": "labeled_wire", "name": e["name"], "p": list(start), "q": list(end), "params": {}})
            else:
                kind, params = e["_ref"]
                it = {"op": "sym", "kind": kind, "name": e["name"], "p": list(start), "q": list(end), "params": params}
                if kind in rdw.VOLTAGE_KINDS or kind in rdw.CURRENT_KINDS:
                    it["reverse"] = bool(e.get("reverse", False))
                prog.append(it)
        if "name" in e:
            ends[e["name"]] = end
        here = end
    return prog


def mk_element(kind, name, i, direction, **extra):
    e = {"type": kind, "direction": direction}
    if kind == "line":
        e.update(extra)
        return e
    vals, ref = decl_values(kind, i)
    e.update(vals)
    e["name"] = name
    e["_ref"] = ref
    e.update(extra)
    return e


def run_declarative_lists(k2, k3, d1, res):
    for d2 in DIRS:
        for d3 in DIRS:
            for pa2 in (None, "V1"):
                for pa3 in (None, "V1", "E2"):
                    if pa3 == "E2" and k2 == "line":
                        continue
                    for L1 in (1, 2):
                        els = [mk_element("voltage_source", "V1", 0, d1, length=L1)]
                        e2 = mk_element(k2, "E2", 1, d2)
                        if pa2:
                            e2["place_after"] = pa2
                        e3 = mk_element(k3, "E3", 2, d3)
                        if pa3:
                            e3["place_after"] = pa3
                        els += [e2, e3, {"type": "ground", "place_after": "V1"}]
                        res["evals"] += 1
                        judge_declarative({"unit": 2, "elements": els}, res)
                        if L1 == 1:
                            # a fourth element placed after the third or the second: its target comes after whatever precedes it in the
                            # list (unnamed wires, the ground entry)
                            for pa4 in ("E3", "E2"):
                                if (pa4 == "E2" and k2 == "line") or (pa4 == "E3" and k3 == "line"):
                                    continue
                                for at_end in (False, True):
                                    e4 = mk_element("resistor", "E4", 3, d1)
                                    e4["place_after"] = pa4
                                    els4 = els[:3] + ([els[3], e4] if at_end else [e4, els[3]])
                                    res["evals"] += 1
                                    judge_declarative({"unit": 2, "elements": els4}, res)


# (number of equal parts, drawing unit): one side of a loop is drawn as n elements of length 1/n, the opposite side as one wire
# (every part is at least one drawing unit long: schemdraw draws a two-terminal symbol at its natural length of 1.0 when a shorter
# one is asked for, which is outside the library under test and outside the placement model)
SUBDIVISIONS = [(3, 7), (3, 3), (2, 3), (3, 4), (6, 7), (7, 9), (3, 5), (8, 9)]


def run_subdivided_loop(sd, res):
    n, unit = sd
    for d1, d2 in (("up", "right"), ("right", "up"), ("down", "left"), ("left", "down")):
        back1 = {"up": "down", "down": "up", "left": "right", "right": "left"}[d1]
        back2 = {"up": "down", "down": "up", "left": "right", "right": "left"}[d2]
        els = [mk_element("voltage_source", "V1", 0, d1, length=1)]
        for k in range(n):
            els.append(mk_element("resistor", "R%d" % (k + 1), k + 1, d2, length="1/%d" % n))
        els.append(mk_element("resistor", "Rb", n + 1, back1, length=1))
        els.append({"type": "line", "direction": back2, "length": 1})
        els.append({"type": "ground"})
        res["evals"] += 1
        judge_declarative({"unit": unit, "elements": els}, res)


def handler_cases():
    out = []
    for kind in ("resistor", "conductance", "impedance", "capacitor", "inductance", "lamp", "voltage_source", "current_source", "ac_voltage_source", "ac_current_source",
                 "complex_voltage_source", "complex_current_source", "line", "labeled_line", "node"):
        for d in DIRS:
            for rev in ((False, True) if kind.endswith("source") else (False,)):
                if kind == "line":
                    x = {"type": "line", "direction": d}
                elif kind == "labeled_line":
                    x = {"type": "line", "name": "W1", "direction": d}
                elif kind == "node":
                    x = mk_element("resistor", "X1", 0, d)
                else:
                    x = mk_element(kind, "X1", 0, d)
                if rev:
                    x["reverse"] = True
                els = [mk_element("voltage_source", "Vs", 3, "up"), mk_element("resistor", "Rs", 4, "right"), x]
                if kind == "node":
                    els.append({"type": "node", "name": "out"})
                els += [{"type": "ground", "place_after": "Vs"}]
                # move the ground to the source's start: place a ground first instead
                els = [{"type": "ground"}] + els[:-1]
                out.append({"unit": 3, "elements": els, "_kind": kind})
    return out


def judge_declarative(spec, res, kind_case=False):
    from CircuitCalculator.SimpleSimulation.schematic import create_schematic
    case = {"declarative": spec}
    res["transitions"] += 1
    res["nontrivial"] += 1
    prog = decl_program(spec["elements"])
    res["state_keys"].add(hash(c13.key_of(prog)))
    if rdw.node_names(prog) is None:
        bump(res["skipped"], "two_names_on_one_node")
        return
    data = {"unit": spec["unit"], "elements": [{k: (complex(*v) if k in ("Z", "V", "I") and isinstance(v, list) else float(F(v)) if k == "length" and isinstance(v, str) else v)
                                                for k, v in e.items() if not k.startswith("_")} for e in spec["elements"]]}
    snap = copy.deepcopy(data)
    bump(res["hits"], "declarative_equals_programmatic")
    if kind_case:
        bump(res["hits"], "declarative_kind:" + spec.get("_kind", "?"))
    try:
        sch = create_schematic(data)
        _close_figures()
    except Exception as e:
        add_violation(res, "declarative_equals_programmatic", case, "a schematic", "%s: %s" % (type(e).__name__, e), "create_schematic raised on a valid list", kind="exception:" + type(e).__name__)
        return
    bump(res["hits"], "input_dict_unchanged")
    if data != snap:
        add_violation(res, "input_dict_unchanged", case, "unchanged", "modified", "create_schematic modified the dictionary it was given")
    tmp = new_result()
    tmp["state_keys"] = set()
    c13.judge_schematic(sch, prog, {"declarative": spec}, tmp, (0.0,))
    for v in tmp["violations"]:
        add_violation(res, "declarative_equals_programmatic", case, v["expected"], v["observed"], "declarative list does not give the circuit of the equivalent placement program (%s: %s)" % (v["subcheck"], v["msg"]))
        return
    res["fps"] |= tmp["fps"]


def _close_figures():
    """create_schematic draws into a new matplotlib figure each time; release them (worker memory)"""
    try:
        import matplotlib.pyplot as plt
        plt.close("all")
    except Exception:
        pass


def vacuity(agg, tier):
    out = []
    for k in ("roundtrip_components", "roundtrip_connectivity_and_ground", "roundtrip_solution", "reload_closure", "declarative_equals_programmatic", "input_dict_unchanged"):
        if agg["hits"].get(k, 0) == 0:
            out.append("sub-check %s never fired" % k)
    return out
