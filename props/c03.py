"""C03 - results are independent of names, listing order, reference node, terminal order (shape G)."""
import itertools
from fractions import Fraction as F
import numpy as np

from mc import space as sp
from mc import adapt
from mc.ref import netlist as rn
from mc.ref import circuit as rc
from mc.ref import dynamics as rd
from mc.runner import new_result, bump, fp, add_violation
from . import common as cm
from . import dyn

ID = "C03"
LEVEL = "model_checking"
RULE = ("states are descriptions of one physical circuit; the generators are node renaming, element renaming, permutation of the "
        "element list, reversal of an element (negating a source's value) and choice of the reference node. For every "
        "(topology, kinds) class the canonical description is analysed once and EVERY element of the explored subgroup is "
        "applied to it directly (stronger than checking generators and appealing to closure): network solver and port "
        "impedance: all node permutations x all reference nodes x reversal subsets x id permutations x listing orders (thorough: the "
        "full product up to 3 branches; quick: full product up to 2x3 branches, at 3 nodes/3 branches reversal {none, each single, all} and "
        "id permutations with the given order plus listing orders with the given ids; 4 branches: id permutations x listing orders); phasor "
        "engine: all node permutations x grounds x reversal subsets x {ascending, descending} ids x {given, reversed} order; "
        "state-space transfer functions and transient waveforms: all id permutations x all listing orders (<= 4 components) "
        "plus every single reversal, every ground and every node transposition; the physical results of the transformed "
        "description (potential differences, currents, powers, port impedances, transfer-function values, waveforms) must be "
        "the image of the canonical results; states = descriptions analysed, transitions = comparisons with the canonical "
        "description; non-trivial = transformed description differs from the canonical one")
ASSUMPTIONS = ["numpy accuracy on the palettes", "names are drawn from palettes whose sort order interleaves sources, inductors and passives"]
EXPLANATION = "metamorphic two-run relations on the real solver, phasor engine, port impedance, state-space builder and transient simulation"
NAMES = ["A", "IsA", "L", "R", "VsR", "Z"]          # sorted order interleaves kinds whatever the assignment
NODE_NAMES = ["n09", "9", "VsR", "L"]             # '9' < 'L' < 'VsR' < 'n09'; '9' is part of 'n09', and 'VsR' / 'L' are element ids as well
                                                  # (node names and element ids are separate name spaces: a node may be called like an element)


def budget_s(tier):
    return 1500 if tier == "quick" else 10800


def shards(tier):
    out = []
    T = tier == "thorough"
    kinds = cm.KINDS7 if T else cm.KINDS4
    for (n, b) in [(2, 2), (2, 3), (3, 2), (3, 3)]:
        topos = sp.topologies(n, b)
        allk = list(itertools.product(kinds, repeat=b))
        for ti in range(len(topos)):
            for ch in sp.chunks(range(len(allk)), 4 if b == 3 else 16):
                out.append(("solver N(%d,%d)|K%d %s" % (n, b, len(kinds), "full product" if T or b < 3 else "nodes x refs x reversal{none,single,all} x ids|order"),
                            ("net", n, b, ti, kinds, ch[0], ch[-1] + 1, "full" if T or b < 3 else "reduced")))
    for (n, b) in ([(3, 4), (4, 4)] if T else [(3, 4)]):
        topos = sp.topologies(n, b)
        k4 = cm.KINDS4 if (T and n == 3) else cm.KINDS3
        allk = list(itertools.product(k4, repeat=b))
        mode4 = "ids_order" if (T and n == 3) else "ids_order_quick"
        for ti in range(len(topos)):
            for ch in sp.chunks(range(len(allk)), 2):
                out.append(("solver N(%d,%d)|K%d %s" % (n, b, len(k4), "ids x order x reversal{none,single,all}" if mode4 == "ids_order" else "ids x order{given,reversed} x reversal{none,all}"),
                            ("net", n, b, ti, k4, ch[0], ch[-1] + 1, mode4)))
    pk = ("R", "C", "L", "Vac", "Iac") if T else ("R", "C", "Vac", "Iac")
    for (n, b) in [(2, 2), (2, 3), (3, 3)]:
        topos = sp.topologies(n, b)
        allk = list(itertools.product(pk, repeat=b))
        for ti in range(len(topos)):
            for ch in sp.chunks(range(len(allk)), 8):
                out.append(("phasor Cq(%d,%d)|K%d" % (n, b, len(pk)), ("pha", n, b, ti, pk, ch[0], ch[-1] + 1)))
    for (n, b) in [(2, 2), (2, 3), (3, 3), (3, 4), (3, 5)]:
        topos = sp.topologies(n, b)
        allk = dyn.kind_tuples(b) if b < 4 else [kt for kt in dyn.kind_tuples(b) if dyn4(kt)]
        if b == 5:
            allk = dyn.kind_tuples(b, "twin")      # two independent inductors / capacitors need five branches
        for ti in range(len(topos)):
            for ch in sp.chunks(range(len(allk)), 4 if b < 4 else (1 if b < 5 else 2)):
                out.append(("dynamics RLC(%d,%d)" % (n, b), ("dyn", n, b, ti, ch[0], ch[-1] + 1, tier)))
    return out


def run_shard(desc):
    res = new_result()
    if desc[0] == "net":
        run_net(desc, res)
    elif desc[0] == "pha":
        run_pha(desc, res)
    else:
        run_dyn(desc, res)
    return res


def replay(case):
    res = new_result()
    eng = case["engine"]
    if eng == "net":
        R0 = net_results(case["canonical"])
        judge_net(case["canonical"], R0, case["transform"], res)
    elif eng == "pha":
        R0 = pha_results(case["canonical"])
        judge_pha(case["canonical"], R0, case["transform"], res)
    else:
        R0 = dyn_results(case["canonical"], case.get("transient", False))
        judge_dyn(case["canonical"], R0, case["transform"], res, case.get("transient", False))
    return res["violations"]


# ------------------------------------------------------------------ transformations of a netlist / circuit description
def transform_netlist(nl, t):
    """t = dict(node_perm=[..], id_perm=[..], order=[..], reverse=bitmask, ref=index into original node list)"""
    nodes = rn.nodes_of(nl)
    nmap = {nodes[i]: nodes[t["node_perm"][i]] for i in range(len(nodes))}
    ids = [b[3] for b in nl["branches"]]
    imap = {ids[i]: ids[t["id_perm"][i]] for i in range(len(ids))}
    brs = []
    for k, b in enumerate(nl["branches"]):
        n1, n2, kind, bid, p = b
        p = list(p)
        if (t["reverse"] >> k) & 1:
            n1, n2 = n2, n1
            if kind in rn.SOURCES:
                v = rn.q(p[0])
                p[0] = [-v.re, -v.im]
        brs.append([nmap[n1], nmap[n2], kind, imap[bid], p])
    brs = [brs[i] for i in t["order"]]
    return {"ref": nmap[nodes[t["ref"]]], "branches": brs}, nmap, imap


def net_results(nl, with_ports=True):
    from CircuitCalculator.Network.NodalAnalysis.bias_point_analysis import nodal_analysis_bias_point_solver
    from CircuitCalculator.Network.NodalAnalysis.node_analysis import open_circuit_impedance
    net = adapt.network(nl)
    sol = nodal_analysis_bias_point_solver(net)
    nodes = rn.nodes_of(nl)
    phi = {n: complex(sol.get_potential(n)) for n in nodes}
    out = {"phi": phi, "V": {}, "I": {}, "P": {}, "Z": {}}
    for b in nl["branches"]:
        out["V"][b[3]] = complex(sol.get_voltage(b[3]))
        out["I"][b[3]] = complex(sol.get_current(b[3]))
        out["P"][b[3]] = complex(sol.get_power(b[3]))
    if with_ports and not rn.has_zero_impedance_loop(nl):
        for a, b_ in itertools.combinations(nodes, 2):
            try:
                out["Z"][(a, b_)] = complex(open_circuit_impedance(net, a, b_))
                out["Z"][(b_, a)] = complex(open_circuit_impedance(net, b_, a))
            except np.linalg.LinAlgError:
                out["Z"][(a, b_)] = out["Z"][(b_, a)] = None
    return out


def compare(res, case, sub, what, exp, got, tol):
    if exp is None or got is None:
        if (exp is None) != (got is None):
            add_violation(res, sub, case, exp, got, what + " defined in only one of the two descriptions")
            return False
        return True
    if abs(exp - got) > tol:
        add_violation(res, sub, case, exp, got, what)
        return False
    return True


def judge_net(nl0, R0, t, res):
    case = {"engine": "net", "canonical": nl0, "transform": t}
    nl1, nmap, imap = transform_netlist(nl0, t)
    res["states"] += 1
    res["transitions"] += 1
    ident = t["node_perm"] == sorted(t["node_perm"]) and t["id_perm"] == sorted(t["id_perm"]) and t["order"] == sorted(t["order"]) and t["reverse"] == 0 and t["ref"] == rn.nodes_of(nl0).index(nl0["ref"])
    if not ident:
        res["nontrivial"] += 1
    subs = []
    if t["node_perm"] != sorted(t["node_perm"]):
        subs.append("rename_nodes")
    if t["id_perm"] != sorted(t["id_perm"]):
        subs.append("rename_ids")
    if t["order"] != sorted(t["order"]):
        subs.append("permute_list")
    if t["reverse"]:
        subs.append("reverse_element")
    if t["ref"] != rn.nodes_of(nl0).index(nl0["ref"]):
        subs.append("move_reference")
    sub = "+".join(subs) if subs else "identity"
    for s_ in subs or ["identity"]:
        bump(res["hits"], s_ + ":solver")
    ports = t["reverse"] == 0 and t["id_perm"] == sorted(t["id_perm"])
    try:
        R1 = net_results(nl1, with_ports=ports)
    except Exception as e:
        add_violation(res, sub, case, "a solution", "%s: %s" % (type(e).__name__, e), "transformed description fails although the canonical one solves", kind="exception:" + type(e).__name__)
        return
    s_phi = max([1e-300] + [abs(v) for v in R0["phi"].values()])
    s_phi = max(s_phi, rn.source_scale(nl0)[0])
    s_i = max([rn.source_scale(nl0)[1]] + [abs(v) for v in R0["I"].values()])
    tv, ti = 1e-9 * s_phi, 1e-9 * s_i
    nodes = rn.nodes_of(nl0)
    for a, b_ in itertools.combinations(nodes, 2):
        if not compare(res, case, sub, "potential difference %s-%s changed" % (a, b_), R0["phi"][a] - R0["phi"][b_], R1["phi"][nmap[a]] - R1["phi"][nmap[b_]], tv):
            return
    if abs(R1["phi"][nl1["ref"]]) != 0:
        add_violation(res, sub, case, 0, R1["phi"][nl1["ref"]], "reference potential not zero")
        return
    for k, b in enumerate(nl0["branches"]):
        sgn = -1 if (t["reverse"] >> k) & 1 else 1
        i1 = imap[b[3]]
        if not compare(res, case, sub, "voltage of %s" % b[3], sgn * R0["V"][b[3]], R1["V"][i1], tv):
            return
        if not compare(res, case, sub, "current of %s" % b[3], sgn * R0["I"][b[3]], R1["I"][i1], ti):
            return
        if not compare(res, case, sub, "power of %s" % b[3], R0["P"][b[3]], R1["P"][i1], 1e-9 * s_phi * s_i):
            return
    zs = [abs(z) for z in R0["Z"].values() if z is not None]
    zsc = max(zs + [1e-300])
    if R0["Z"] and ports:
        bump(res["hits"], "port_impedance_invariant")
    for (a, b_), z in (R0["Z"].items() if ports else []):
        if not compare(res, case, sub, "port impedance %s-%s" % (a, b_), z, R1["Z"].get((nmap[a], nmap[b_])), 1e-9 * zsc):
            return
    res["fps"].add(fp(*R1["phi"].values()))
    if len(res["samples"]) < 1 and not ident:
        res["samples"].append({"canonical": nl0, "transformed": nl1})


def run_net(desc, res):
    _, n, b, ti, kinds, k0, k1, mode = desc
    topo = sp.topologies(n, b)[ti]
    allk = list(itertools.product(kinds, repeat=b))
    for kt in allk[k0:k1]:
        pal = "cplx" if (len(kt[0]) + b) % 2 else "real"
        if not cm.class_well_posed(topo, kt, pal):
            res["evals"] += 1
            bump(res["skipped"], "ill_posed_class")
            continue
        nl0 = cm.build_netlist(topo, kt, 0, 0, NODE_NAMES[:n], pal, NAMES[:b])
        nodes = rn.nodes_of(nl0)
        nl0["ref"] = nodes[0]
        try:
            R0 = net_results(nl0)
        except Exception as e:
            add_violation(res, "identity", {"engine": "net", "canonical": nl0, "transform": None}, "solution", repr(e), "canonical description fails", kind="exception:" + type(e).__name__)
            continue
        allp = [list(p) for p in itertools.permutations(range(b))]
        ident_p = list(range(b))
        rev_p = list(reversed(range(b)))
        if mode == "full":
            node_perms, refs, revs = list(itertools.permutations(range(n))), list(range(n)), list(range(2 ** b))
            id_order = [(i, o) for i in allp for o in allp]
        elif mode == "reduced":
            node_perms, refs = list(itertools.permutations(range(n))), list(range(n))
            revs = sorted({0, 2 ** b - 1} | {1 << k for k in range(b)})
            id_order = [(ident_p, ident_p), (rev_p, rev_p)] + [(i, ident_p) for i in allp if i != ident_p] + [(ident_p, o) for o in allp if o != ident_p]
        elif mode == "ids_order":
            node_perms, refs = [tuple(range(n)), tuple(reversed(range(n)))], [0, n - 1]
            revs = sorted({0, 2 ** b - 1} | {1 << k for k in range(b)})
            id_order = [(i, o) for i in allp for o in allp]
        else:
            node_perms, refs, revs = [tuple(range(n)), tuple(reversed(range(n)))], [0, n - 1], [0, 2 ** b - 1]
            id_order = [(i, o) for i in allp for o in (ident_p, rev_p)]
        for npm in node_perms:
            for ref in refs:
                for rev in revs:
                    for idp, order in id_order:
                        res["evals"] += 1
                        judge_net(nl0, R0, {"node_perm": list(npm), "id_perm": list(idp), "order": list(order), "reverse": rev, "ref": ref}, res)


# ------------------------------------------------------------------ phasor engine on component circuits
PTAB = {
    "R": lambda v: ("resistor", {"R": v}),
    "C": lambda v: ("capacitor", {"C": F(1, v)}),
    "L": lambda v: ("inductance", {"L": F(v, 2)}),
    "Vac": lambda v: ("ac_voltage_source", {"V": F(v, 2), "w": 1, "phi": "a34"}),
    "Iac": lambda v: ("ac_current_source", {"I": v, "w": 1, "phi": "-pi/2", "G": F(1, v + 1)}),
}


def transform_circuit_desc(d0, t):
    comps = [c for c in d0["components"] if c[0] != "ground"]
    nodes = sorted({n for c in comps for n in c[2]})
    nmap = {nodes[i]: nodes[t["node_perm"][i]] for i in range(len(nodes))}
    ids = [c[1] for c in comps]
    imap = {ids[i]: ids[t["id_perm"][i]] for i in range(len(ids))}
    out = []
    for k, c in enumerate(comps):
        kind, cid, nn, p = c
        p = dict(p)
        n1, n2 = nn
        if (t["reverse"] >> k) & 1:
            n1, n2 = n2, n1
            for key in ("V", "I"):
                if key in p:
                    p[key] = -F(p[key])
        out.append([kind, imap[cid], [nmap[n1], nmap[n2]], p])
    out = [out[i] for i in t["order"]]
    g = ["ground", "gnd", [nmap[nodes[t["ref"]]]], {}]
    pos = t.get("ground_pos", len(out))
    out.insert(min(pos, len(out)), g)
    return {"components": out}, nmap, imap


def pha_results(d):
    from CircuitCalculator.Circuit.solution import ComplexSolution
    circ = adapt.circuit(d)
    sol = ComplexSolution(circuit=circ, w=1.0, peak_values=True)
    comps = [c for c in d["components"] if c[0] != "ground"]
    nodes = sorted({n for c in comps for n in c[2]})
    return {"phi": {n: complex(sol.get_potential(n)) for n in nodes}, "V": {c[1]: complex(sol.get_voltage(c[1])) for c in comps},
            "I": {c[1]: complex(sol.get_current(c[1])) for c in comps}, "P": {c[1]: complex(sol.get_power(c[1])) for c in comps}}


def judge_pha(d0, R0, t, res):
    case = {"engine": "pha", "canonical": d0, "transform": t}
    d1, nmap, imap = transform_circuit_desc(d0, t)
    res["states"] += 1
    res["transitions"] += 1
    res["nontrivial"] += 1
    bump(res["hits"], "phasor_engine")
    try:
        R1 = pha_results(d1)
    except Exception as e:
        add_violation(res, "phasor_engine", case, "a solution", "%s: %s" % (type(e).__name__, e), "transformed circuit fails although the canonical one solves", kind="exception:" + type(e).__name__)
        return
    comps = [c for c in d0["components"] if c[0] != "ground"]
    nodes = sorted(R0["phi"])
    sv = max([1.0] + [abs(v) for v in R0["phi"].values()])
    si = max([1e-300] + [abs(v) for v in R0["I"].values()] + [sv / 50])
    for a, b_ in itertools.combinations(nodes, 2):
        if not compare(res, case, "phasor_engine", "potential difference %s-%s" % (a, b_), R0["phi"][a] - R0["phi"][b_], R1["phi"][nmap[a]] - R1["phi"][nmap[b_]], 1e-9 * sv):
            return
    for k, c in enumerate(comps):
        sgn = -1 if (t["reverse"] >> k) & 1 else 1
        if not compare(res, case, "phasor_engine", "voltage of %s" % c[1], sgn * R0["V"][c[1]], R1["V"][imap[c[1]]], 1e-9 * sv):
            return
        if not compare(res, case, "phasor_engine", "current of %s" % c[1], sgn * R0["I"][c[1]], R1["I"][imap[c[1]]], 1e-9 * si):
            return
        if not compare(res, case, "phasor_engine", "power of %s" % c[1], R0["P"][c[1]], R1["P"][imap[c[1]]], 1e-9 * si * sv):
            return
    res["fps"].add(fp(*R1["phi"].values()))


def run_pha(desc, res):
    _, n, b, ti, pk, k0, k1 = desc
    topo = sp.topologies(n, b)[ti]
    allk = list(itertools.product(pk, repeat=b))
    for kt in allk[k0:k1]:
        comps = []
        for k, ((i, j), kn) in enumerate(zip(topo, kt)):
            ckind, params = PTAB[kn](sp.P_REAL[k])
            comps.append([ckind, NAMES[k], [NODE_NAMES[i], NODE_NAMES[j]], params])
        d0 = {"components": comps + [["ground", "gnd", [NODE_NAMES[0]], {}]]}
        res["evals"] += 1
        if not rn.well_posed(rc.netlist(d0, 1)):
            bump(res["skipped"], "ill_posed_at_w=1")
            continue
        try:
            R0 = pha_results(d0)
        except Exception as e:
            add_violation(res, "phasor_engine", {"engine": "pha", "canonical": d0, "transform": None}, "solution", repr(e), "canonical circuit fails", kind="exception:" + type(e).__name__)
            continue
        nodes = sorted(R0["phi"])
        for npm in itertools.permutations(range(n)):
            for ref in range(n):
                for rev in range(2 ** b):
                    for idp in (list(range(b)), list(reversed(range(b)))):
                        for order in (list(range(b)), list(reversed(range(b)))):
                            for gpos in (0, b):
                                res["evals"] += 1
                                judge_pha(d0, R0, {"node_perm": list(npm), "id_perm": idp, "order": order, "reverse": rev, "ref": ref, "ground_pos": gpos}, res)


# ------------------------------------------------------------------ dynamics: transfer functions and transient waveforms
W3 = [F(1, 3), F(1), F(7)]


def dyn4(kt):
    """4-component dynamics family: two reactive elements with one source, or one reactive element with a voltage AND a current source"""
    nr = sum(1 for k in kt if k in "CL")
    return (nr == 2 and sum(1 for k in kt if k in "VI") == 1) or (nr == 1 and "V" in kt and "I" in kt and "R" in kt)


def dyn_results(d, transient):
    from CircuitCalculator.Circuit.solution import TransientSolution
    from . import c10
    circ, ssm = dyn.library_models(d)
    comps = [c for c in d["components"] if c[0] != "ground"]
    nodes = sorted({n for c in comps for n in c[2]})
    pub = list(ssm.sources)
    rows_c = {}
    rows_d = {}
    for nd in nodes:
        rows_c[("p", nd)] = np.asarray(ssm.c_row_for_potential(nd), float).reshape(-1)
        rows_d[("p", nd)] = np.asarray(ssm.d_row_for_potential(nd), float).reshape(-1)
    for c in comps:
        rows_c[("v", c[1])] = np.asarray(ssm.c_row_voltage(c[1]), float).reshape(-1)
        rows_d[("v", c[1])] = np.asarray(ssm.d_row_voltage(c[1]), float).reshape(-1)
        rows_c[("i", c[1])] = np.asarray(ssm.c_row_current(c[1]), float).reshape(-1)
        rows_d[("i", c[1])] = np.asarray(ssm.d_row_current(c[1]), float).reshape(-1)
    A, B = np.asarray(ssm.A, float), np.asarray(ssm.B, float)
    H = {}
    for w in W3:
        X = np.linalg.solve(1j * float(w) * np.eye(A.shape[0]) - A, B.astype(complex))
        for key in rows_c:
            for k, sid in enumerate(pub):
                H[(key, sid, w)] = complex(rows_c[key] @ X[:, k] + rows_d[key][k])
    out = {"H": H, "sources": pub, "n_states": A.shape[0]}
    if transient:
        ev = np.linalg.eigvals(A)
        rate = max(np.abs(ev).max(), 1e-9)
        t = np.arange(201) / (20 * rate)
        srcs = rd.sources(d)
        amps = {s[1]: rc.fl(s[3]["V"] if s[0] == "dc_voltage_source" else s[3]["I"]) for s in srcs}
        out["t"] = t
        out["amps"] = amps
    return out


def transient_series(d, t, shapes):
    from CircuitCalculator.Circuit.solution import TransientSolution
    circ = adapt.circuit(d)
    sol = TransientSolution(circuit=circ, tin=t, input=shapes)
    comps = [c for c in d["components"] if c[0] != "ground"]
    nodes = sorted({n for c in comps for n in c[2]})
    Y = {}
    for nd in nodes:
        Y[("p", nd)] = np.asarray(sol.get_potential(nd)[1], float)
    for c in comps:
        Y[("v", c[1])] = np.asarray(sol.get_voltage(c[1])[1], float)
        Y[("i", c[1])] = np.asarray(sol.get_current(c[1])[1], float)
    return Y


def judge_dyn(d0, R0, t, res, transient):
    case = {"engine": "dyn", "canonical": d0, "transform": t, "transient": transient}
    d1, nmap, imap = transform_circuit_desc(d0, t)
    res["states"] += 1
    res["transitions"] += 1
    res["nontrivial"] += 1
    bump(res["hits"], "ssm_tf")
    comps = [c for c in d0["components"] if c[0] != "ground"]
    rev = {c[1]: ((t["reverse"] >> k) & 1) for k, c in enumerate(comps)}
    kind_of = {c[1]: c[0] for c in comps}
    ref0 = rc.ground_node(d0)
    try:
        R1 = dyn_results(d1, False)
    except Exception as e:
        add_violation(res, "ssm_tf", case, "a model", "%s: %s" % (type(e).__name__, e), "transformed circuit has no model although the canonical one has", kind="exception:" + type(e).__name__)
        return
    if sorted(R1["sources"]) != sorted(imap[s] for s in R0["sources"]) or R1["n_states"] != R0["n_states"]:
        add_violation(res, "ssm_tf", case, sorted(imap[s] for s in R0["sources"]), R1["sources"], "published sources / state dimension changed")
        return
    scale = max([1e-300] + [abs(v) for v in R0["H"].values()])
    new_ref = nmap[sorted({n for c in comps for n in c[2]})[t["ref"]]]
    for (key, sid, w), h0 in R0["H"].items():
        s_sgn = -1 if rev[sid] else 1       # a reversed source with negated value: unit input of the new source = minus the old one
        if key[0] == "p":
            # potentials are compared as differences to the (new) reference node
            ref_old = [n for n, m in nmap.items() if m == new_ref][0]
            h_exp = (h0 - R0["H"][(("p", ref_old), sid, w)]) * s_sgn
            h_got = R1["H"][(("p", nmap[key[1]]), imap[sid], w)]
        else:
            o_sgn = -1 if rev[key[1]] else 1
            h_exp = h0 * s_sgn * o_sgn
            h_got = R1["H"][((key[0], imap[key[1]]), imap[sid], w)]
        if abs(h_exp - h_got) > 1e-8 * scale:
            add_violation(res, "ssm_tf", dict(case, output=list(key), source=sid, w=str(w)), h_exp, h_got,
                          "transfer function %s <- %s at w=%s changed under the transformation" % (key, sid, w))
            return
    res["fps"].add(fp(*list(R1["H"].values())[:4]))
    if transient:
        bump(res["hits"], "transient")
        tt = R0["t"]
        shapes0 = {}
        shapes1 = {}
        for k, sid in enumerate(sorted(R0["amps"])):
            a = R0["amps"][sid]
            f0 = (lambda x, a=a, k=k: a * np.clip(np.asarray(x, float) / tt[60 + 30 * k], 0, 1))
            shapes0[sid] = f0
            shapes1[imap[sid]] = (lambda x, f0=f0, s=(-1 if rev[sid] else 1): s * f0(x))
        try:
            Y0 = transient_series(d0, tt, shapes0)
            Y1 = transient_series(d1, tt, shapes1)
        except Exception as e:
            add_violation(res, "transient", case, "waveforms", "%s: %s" % (type(e).__name__, e), "transient simulation failed", kind="exception:" + type(e).__name__)
            return
        sc = max([1e-300] + [np.abs(v).max() for v in Y0.values()])
        ref_old = [n for n, m in nmap.items() if m == new_ref][0]
        for key, y0 in Y0.items():
            if key[0] == "p":
                e = y0 - Y0[("p", ref_old)]
                g = Y1[("p", nmap[key[1]])]
            else:
                e = y0 * (-1 if rev[key[1]] else 1)
                g = Y1[(key[0], imap[key[1]])]
            if np.abs(e - g).max() > 1e-8 * sc:
                add_violation(res, "transient", dict(case, output=list(key)), float(e[100]), float(g[100]), "transient waveform of %s changed under the transformation" % (key,))
                return


def run_dyn(desc, res):
    _, n, b, ti, k0, k1, tier = desc
    topo = sp.topologies(n, b)[ti]
    allk = dyn.kind_tuples(b) if b < 4 else [kt for kt in dyn.kind_tuples(b) if dyn4(kt)]
    if b == 5:
        allk = dyn.kind_tuples(b, "twin")
    for kt in allk[k0:k1]:
        res["evals"] += 1
        ok, why = dyn.class_non_degenerate(topo, kt)
        if not ok:
            bump(res["skipped"], why)
            continue
        comps = []
        for k, ((i, j), kn) in enumerate(zip(topo, kt)):
            comps.append(dyn.comp(kn, NAMES[k], NODE_NAMES[i], NODE_NAMES[j], k))
        d0 = {"components": comps + [["ground", "gnd", [NODE_NAMES[0]], {}]]}
        transient = b <= 3
        try:
            R0 = dyn_results(d0, transient)
        except Exception as e:
            add_violation(res, "ssm_tf", {"engine": "dyn", "canonical": d0, "transform": None, "transient": False}, "model", repr(e), "canonical circuit has no model", kind="exception:" + type(e).__name__)
            continue
        base = {"node_perm": list(range(n)), "id_perm": list(range(b)), "order": list(range(b)), "reverse": 0, "ref": 0, "ground_pos": b}
        # complete id x listing-order product
        orders = list(itertools.permutations(range(b)))
        if b == 5:
            # five components: every id permutation, with the given, the reversed and the reactive-pair-swapped listing order
            rp = [k for k, kn in enumerate(kt) if kn in "CL"]
            sw = list(range(b))
            sw[rp[0]], sw[rp[1]] = sw[rp[1]], sw[rp[0]]
            orders = [tuple(range(b)), tuple(reversed(range(b))), tuple(sw)]
        for idp in itertools.permutations(range(b)):
            for order in orders:
                res["evals"] += 1
                judge_dyn(d0, R0, dict(base, id_perm=list(idp), order=list(order)), res, transient and (b <= 2 or (idp[0] + order[0]) % 2 == 0))
        # single deviations of the other generators
        for k in range(b):
            res["evals"] += 1
            judge_dyn(d0, R0, dict(base, reverse=1 << k), res, transient)
        for r in range(1, n):
            res["evals"] += 1
            judge_dyn(d0, R0, dict(base, ref=r), res, transient)
        for i, j in itertools.combinations(range(n), 2):
            p = list(range(n))
            p[i], p[j] = p[j], p[i]
            res["evals"] += 1
            judge_dyn(d0, R0, dict(base, node_perm=p), res, transient)
        for gpos in range(b):
            res["evals"] += 1
            judge_dyn(d0, R0, dict(base, ground_pos=gpos), res, False)


def vacuity(agg, tier):
    out = []
    for k in ("rename_nodes:solver", "rename_ids:solver", "permute_list:solver", "reverse_element:solver", "move_reference:solver", "port_impedance_invariant", "phasor_engine", "ssm_tf", "transient"):
        if agg["hits"].get(k, 0) == 0:
            out.append("sub-check %s never fired" % k)
    return out
