"""C19 - malformed circuits are rejected, not reinterpreted (fault enumeration)."""
import copy
import itertools
import numpy as np

from mc import adapt
from mc.runner import new_result, bump, fp, add_violation

ID = "C19"
LEVEL = "fault_enumeration"
RULE = ("every valid base description (networks, circuits, component constructor calls, network-loader and circuit-loader "
        "dictionaries, declarative schematic dictionaries; 1..4 entries) first without a fault (must be accepted and stored "
        "unaltered), then with exactly one injected fault of each class of the statement at EVERY position (duplicate id at "
        "every pair, foreign reference node, second ground at every insertion point, each sign-checked parameter negative "
        "with three magnitudes, unknown type, unknown waveform, each required field missing), plus the boundary twin (value "
        "exactly 0, must be accepted), plus unknown element/node queries against every solution kind; thorough adds every pair of faults of one class in the loader descriptions; a case is distinct by "
        "(base, fault class, position, value); non-trivial = a case with an injected fault or an unknown-id query"
        ' Additions: load reference faults for six rated powers.')
ASSUMPTIONS = ["exception types are recorded, not constrained (the statement only says 'rejected with an exception')",
               "sign rules are anchored at the component constructors and loaders, the reference-node rule at Network, ground/duplicate rules at Circuit"]
EXPLANATION = "exhaustive single-fault injection over positions on the real constructors and loaders"


def budget_s(tier):
    return 300 if tier == "quick" else 900


GROUPS = ["network", "circuit", "constructors", "net_loader", "cir_loader", "waveforms", "queries", "declarative"]


def shards(tier):
    out = [("faults:" + g, (g, tier)) for g in GROUPS]
    if tier == "thorough":
        out += [("double faults:" + g, (g + "_double", tier)) for g in ("net_loader", "cir_loader")]
    return out


def run_shard(desc):
    res = new_result()
    globals()["run_" + desc[0]](res)
    return res


def replay(case):
    res = new_result()
    res["only"] = {k: v for k, v in case.items()}
    globals()["run_" + case["group"]](res)
    return res["violations"]


def _want(res, case):
    only = res.get("only")
    if only is None:
        return True
    return all(only.get(k) == case.get(k) for k in case)


def expect_raises(res, sub, case, thunk, what):
    """fault case: thunk must raise"""
    if not _want(res, case):
        return
    res["evals"] += 1
    res["states"] += 1
    res["nontrivial"] += 1
    res["transitions"] += 1
    bump(res["hits"], sub)
    try:
        out = thunk()
    except Exception as e:
        bump(res["extra"].setdefault("exception_types", {}), type(e).__name__)
        res["fps"].add(fp(sub, type(e).__name__, repr(sorted(case.items()))[:200]))
        return
    add_violation(res, sub, case, "an exception", repr(out)[:300], what, kind="accepted")


def expect_accepts(res, sub, case, thunk, stored_check=None, what="valid description rejected"):
    if not _want(res, case):
        return None
    res["evals"] += 1
    res["states"] += 1
    res["transitions"] += 1
    bump(res["hits"], sub)
    try:
        out = thunk()
    except Exception as e:
        add_violation(res, sub, case, "accepted", "%s: %s" % (type(e).__name__, e), what, kind="exception:" + type(e).__name__)
        return None
    res["fps"].add(fp(sub, "ok", repr(sorted(case.items()))[:200]))
    if stored_check is not None:
        bump(res["hits"], "accepted_stored_unaltered")
        msg = stored_check(out)
        if msg:
            add_violation(res, "accepted_stored_unaltered", case, "stored as given", msg, "an accepted description was altered")
    if len(res["samples"]) < 2:
        res["samples"].append(case)
    return out


# ------------------------------------------------------------------ bases
def net_bases():
    from CircuitCalculator.Network import elements as elm
    from CircuitCalculator.Network.network import Branch
    return {
        "n1": [("1", "0", lambda: elm.resistor("R1", 5))],
        "n2": [("1", "0", lambda: elm.voltage_source("Vs", 2)), ("1", "0", lambda: elm.resistor("R1", 5))],
        "n3": [("1", "0", lambda: elm.voltage_source("Vs", 2)), ("1", "2", lambda: elm.resistor("R1", 5)), ("2", "0", lambda: elm.impedance("Z1", 1 + 2j))],
        "n4": [("a", "0", lambda: elm.current_source("Is", 1)), ("a", "b", lambda: elm.resistor("R1", 5)), ("b", "0", lambda: elm.admittance("Y1", 0.5)), ("b", "0", lambda: elm.load("Ld", P=10, V_ref=5))],
    }


def run_network(res):
    from CircuitCalculator.Network.network import Network, Branch
    from CircuitCalculator.Network import elements as elm
    import dataclasses
    for name, spec in net_bases().items():
        def build(ids=None, ref="0"):
            brs = []
            for k, (a, b_, mk) in enumerate(spec):
                e = mk()
                if ids is not None and ids[k] is not None:
                    e = dataclasses.replace(e, name=ids[k])
                brs.append(Branch(a, b_, e))
            return Network(brs, node_zero_label=ref), brs
        case = {"group": "network", "base": name, "fault": "none"}

        def stored(out):
            net, brs = out
            if list(net.branches) != brs or net.node_zero_label != "0":
                return "branches or reference label differ from the input"
            return None
        expect_accepts(res, "accepts_valid", case, lambda: build(), stored)
        n = len(spec)
        names = [mk().name for (_, _, mk) in spec]
        for i, j in itertools.combinations(range(n), 2):
            ids = [None] * n
            ids[j] = names[i]
            expect_raises(res, "rejects_duplicate_id", {"group": "network", "base": name, "fault": "duplicate_id", "pos": [i, j]},
                          lambda ids=ids: build(ids), "network with duplicate branch ids accepted")
        for ref in ("zz", "", "00"):
            expect_raises(res, "rejects_unreferenced_reference_node", {"group": "network", "base": name, "fault": "reference", "ref": ref},
                          lambda ref=ref: build(None, ref), "reference node that touches no element accepted")
        for nd in sorted({a for a, _, _ in spec} | {b_ for _, b_, _ in spec}):
            expect_accepts(res, "accepts_valid", {"group": "network", "base": name, "fault": "none", "ref": nd}, lambda nd=nd: build(None, nd))
    # load element reference-value rules
    # ... whatever the rated power is (an idle load P = Q = 0, a purely reactive one, a generator) and at every list position of the
    # reference keywords
    for pq in ({"P": 10}, {"P": 0}, {"P": 0, "Q": 0.0}, {"P": 0, "Q": 3.0}, {"P": -4}, {"P": 1e-12}):
        for kw in ({"V_ref": -1.0}, {"V_ref": 0.0}, {"V_ref": 5.0, "I_ref": 2.0}, {}, {"I_ref": 0.0}, {"V_ref": -3.0, "I_ref": -2.0}, {"V_ref": -230.0}):
            expect_raises(res, "rejects_bad_load_reference", {"group": "network", "fault": "load_reference", "kw": repr(kw), "power": repr(pq)},
                          lambda kw=kw, pq=pq: elm.load("L", **pq, **kw), "load with inadmissible reference values accepted")
    for kw in ({"V_ref": 5.0}, {"I_ref": 2.0}):
        for pq in ({"P": 10}, {"P": 0}, {"P": 0, "Q": 3.0}):
            expect_accepts(res, "accepts_valid", {"group": "network", "fault": "none", "kw": repr(kw), "power": repr(pq)}, lambda kw=kw, pq=pq: elm.load("L", **pq, **kw))


# ------------------------------------------------------------------ circuit layer
def circuit_bases():
    return {
        "c1": [["resistor", "R1", ["1", "0"], {"R": 5}]],
        "c2": [["dc_voltage_source", "Vs", ["1", "0"], {"V": 2}], ["resistor", "R1", ["1", "0"], {"R": 5}]],
        "c3": [["ac_voltage_source", "Vs", ["1", "0"], {"V": 2, "w": 3, "phi": "a34"}], ["resistor", "R1", ["1", "2"], {"R": 5}], ["capacitor", "C1", ["2", "0"], {"C": "1/10"}]],
        "c4": [["dc_current_source", "Is", ["0", "1"], {"I": 1}], ["resistor", "R1", ["1", "2"], {"R": 5}], ["inductance", "L1", ["2", "0"], {"L": "1/2"}], ["lamp", "La", ["1", "0"], {"P": 10, "V_ref": 5}]],
    }


def run_circuit(res):
    from CircuitCalculator.Circuit.circuit import Circuit
    from CircuitCalculator.Circuit import components as ccp
    import dataclasses
    for name, comps in circuit_bases().items():
        def build(ids=None, grounds=()):
            lst = [adapt.component(c) for c in comps]
            if ids is not None:
                lst = [dataclasses.replace(c, id=ids[k]) if ids[k] is not None else c for k, c in enumerate(lst)]
            for pos, node, gid in sorted(grounds, reverse=True):
                lst.insert(pos, ccp.ground(id=gid, nodes=(node,)))
            return Circuit(lst), lst
        for gpos in [None] + list(range(len(comps) + 1)):
            g = () if gpos is None else ((gpos, "0", "gnd"),)

            def stored(out, g=g):
                c, lst = out
                if c.components != lst:
                    return "component list differs from the input"
                exp = "0" if g else comps[0][2][0]
                if c.ground_node != exp:
                    return "ground node %r instead of %r" % (c.ground_node, exp)
                return None
            expect_accepts(res, "accepts_valid", {"group": "circuit", "base": name, "fault": "none", "ground_pos": gpos}, lambda g=g: build(None, g), stored)
        n = len(comps)
        for i, j in itertools.combinations(range(n), 2):
            ids = [None] * n
            ids[j] = comps[i][1]
            for g in ((), ((0, "0", "gnd"),)):
                expect_raises(res, "rejects_duplicate_id", {"group": "circuit", "base": name, "fault": "duplicate_id", "pos": [i, j], "with_ground": bool(g)},
                              lambda ids=ids, g=g: build(ids, g), "circuit with duplicate component ids accepted")
        for p1 in range(n + 1):
            for p2 in range(p1, n + 1):
                for node2 in ("0", "1"):
                    expect_raises(res, "rejects_second_ground", {"group": "circuit", "base": name, "fault": "second_ground", "pos": [p1, p2], "node": node2},
                                  lambda p1=p1, p2=p2, node2=node2: build(None, ((p1, "0", "gnd"), (p2, node2, "gnd2"))), "circuit with two grounds accepted")


# ------------------------------------------------------------------ component constructors
SIGN_RULES = {
    "resistor": (lambda ccp, **k: ccp.resistor("X", ("1", "0"), **k), {"R": 5.0}, ["R"]),
    "conductance": (lambda ccp, **k: ccp.conductance("X", ("1", "0"), **k), {"G": 5.0}, ["G"]),
    "capacitor": (lambda ccp, **k: ccp.capacitor("X", ("1", "0"), **k), {"C": 5.0}, ["C"]),
    "inductance": (lambda ccp, **k: ccp.inductance("X", ("1", "0"), **k), {"L": 5.0}, ["L"]),
    "dc_voltage_source": (lambda ccp, **k: ccp.dc_voltage_source("X", ("1", "0"), **k), {"V": 2.0, "R": 1.0}, ["R"]),
    "ac_voltage_source": (lambda ccp, **k: ccp.ac_voltage_source("X", ("1", "0"), **k), {"V": 2.0, "R": 1.0, "w": 3.0, "phi": 0.5}, ["R", "w"]),
    "periodic_voltage_source": (lambda ccp, **k: ccp.periodic_voltage_source("X", ("1", "0"), **k), {"wavetype": "rect", "V": 2.0, "R": 1.0, "w": 3.0, "phi": 0.5}, ["R", "w"]),
    "dc_current_source": (lambda ccp, **k: ccp.dc_current_source("X", ("1", "0"), **k), {"I": 2.0, "G": 1.0}, ["G"]),
    "ac_current_source": (lambda ccp, **k: ccp.ac_current_source("X", ("1", "0"), **k), {"I": 2.0, "G": 1.0, "w": 3.0, "phi": 0.5}, ["G", "w"]),
    "periodic_current_source": (lambda ccp, **k: ccp.periodic_current_source("X", ("1", "0"), **k), {"wavetype": "rect", "I": 2.0, "G": 1.0, "w": 3.0, "phi": 0.5}, ["G", "w"]),
    "lamp": (lambda ccp, **k: ccp.lamp("X", ("1", "0"), **k), {"P": 10.0, "V_ref": 5.0}, ["P", "V_ref"]),
    "resistive_load": (lambda ccp, **k: ccp.resistive_load("X", ("1", "0"), **k), {"P": 10.0, "V_ref": 5.0}, ["P", "V_ref"]),
}
NEG = [-1.0, -1e-9, -1e6]


def run_constructors(res):
    from CircuitCalculator.Circuit import components as ccp
    for kind, (mk, good, checked) in SIGN_RULES.items():
        def stored(c, good=good):
            for k, v in good.items():
                if c.value.get(k) != v:
                    return "value %s stored as %r instead of %r" % (k, c.value.get(k), v)
            if c.id != "X" or tuple(c.nodes) != ("1", "0") or c.type != kind:
                return "id/nodes/type altered"
            return None
        expect_accepts(res, "accepts_valid", {"group": "constructors", "kind": kind, "fault": "none"}, lambda mk=mk, good=good: mk(ccp, **good), stored)
        for par in checked:
            for v in NEG:
                kw = dict(good)
                kw[par] = v
                expect_raises(res, "rejects_negative:" + par, {"group": "constructors", "kind": kind, "fault": "negative", "param": par, "value": v},
                              lambda mk=mk, kw=kw: mk(ccp, **kw), "%s with negative %s accepted" % (kind, par))
            kw = dict(good)
            kw[par] = 0.0
            if not (kind.startswith("periodic") and par == "w"):
                expect_accepts(res, "accepts_boundary_zero", {"group": "constructors", "kind": kind, "fault": "boundary_zero", "param": par}, lambda mk=mk, kw=kw: mk(ccp, **kw),
                               what="value exactly 0 rejected")


# ------------------------------------------------------------------ network loader
def net_descs():
    return {
        "d1": [{"type": "resistor", "id": "R1", "N1": "1", "N2": "0", "R": 5}],
        "d3": [{"type": "voltage_source", "id": "Vs", "N1": "1", "N2": "0", "V": {"real": 1, "imag": 0}},
               {"type": "resistor", "id": "R1", "N1": "1", "N2": "2", "R": 5},
               {"type": "impedance", "id": "Z1", "N1": "2", "N2": "0", "Z": {"abs": 2, "phase": 0.5}}],
        "d4": [{"type": "linear_current_source", "id": "I1", "N1": "0", "N2": "1", "I": {"real": 1, "imag": 0}, "Y": {"real": 0.01, "imag": 0}},
               {"type": "conductor", "id": "G1", "N1": "1", "N2": "2", "G": 0.5},
               {"type": "open_circuit", "id": "oc", "N1": "2", "N2": "0"},
               {"type": "real_voltage_source", "id": "V2", "N1": "2", "N2": "0", "V": 3}],
    }


def run_net_loader(res):
    from CircuitCalculator.Network.loaders import load_network
    for name, desc in net_descs().items():
        def stored(net, desc=desc):
            if [b.id for b in net.branches] != [e["id"] for e in desc] or [(b.node1, b.node2) for b in net.branches] != [(e["N1"], e["N2"]) for e in desc]:
                return "ids/terminals differ from the description"
            return None
        expect_accepts(res, "accepts_valid", {"group": "net_loader", "base": name, "fault": "none"}, lambda: load_network(copy.deepcopy(desc)), stored)
        for i, e in enumerate(desc):
            d = copy.deepcopy(desc)
            d[i]["type"] = "flux_capacitor"
            expect_raises(res, "rejects_unknown_type", {"group": "net_loader", "base": name, "fault": "unknown_type", "pos": i}, lambda d=d: load_network(d), "unknown element type accepted")
            for key in list(e.keys()):
                d = copy.deepcopy(desc)
                del d[i][key]
                expect_raises(res, "rejects_missing_field", {"group": "net_loader", "base": name, "fault": "missing_field", "pos": i, "field": key}, lambda d=d: load_network(d),
                              "entry without %s accepted" % key)
            for key, v in e.items():
                if isinstance(v, dict):
                    for sub in list(v.keys()):
                        d = copy.deepcopy(desc)
                        del d[i][key][sub]
                        expect_raises(res, "rejects_missing_field", {"group": "net_loader", "base": name, "fault": "missing_field", "pos": i, "field": key + "." + sub},
                                      lambda d=d: load_network(d), "complex value without %s accepted" % sub)
        for i, j in itertools.combinations(range(len(desc)), 2):
            d = copy.deepcopy(desc)
            d[j]["id"] = d[i]["id"]
            expect_raises(res, "rejects_duplicate_id", {"group": "net_loader", "base": name, "fault": "duplicate_id", "pos": [i, j]}, lambda d=d: load_network(d), "duplicate ids accepted")
        d = copy.deepcopy(desc)
        for e in d:
            e["N1"] = "x" + e["N1"]
            e["N2"] = "x" + e["N2"]
        expect_raises(res, "rejects_unreferenced_reference_node", {"group": "net_loader", "base": name, "fault": "reference"}, lambda d=d: load_network(d), "description without the reference node accepted")


# ------------------------------------------------------------------ circuit loader
def cir_docs():
    return {
        "k1": [{"type": "resistor", "id": "R1", "nodes": ["1", "0"], "value": {"R": 5}}],
        "k3": [{"type": "dc_voltage_source", "id": "Vs", "nodes": ["1", "0"], "value": {"V": 1, "R": 2}},
               {"type": "conductance", "id": "G1", "nodes": ["1", "2"], "value": {"G": 0.5}},
               {"type": "ac_current_source", "id": "Is", "nodes": ["0", "2"], "value": {"I": 1, "G": 0.1, "w": 3, "phi": 0.2}}],
        "k4": [{"type": "ac_voltage_source", "id": "Vs", "nodes": ["1", "0"], "value": {"V": 1, "R": 2, "w": 5, "phi": 0}},
               {"type": "resistor", "id": "R1", "nodes": ["1", "2"], "value": {"R": 5}},
               {"type": "impedance", "id": "Z1", "nodes": ["2", "0"], "value": {"Z": 1 + 2j}},
               {"type": "dc_current_source", "id": "I2", "nodes": ["0", "2"], "value": {"I": 1, "G": 0.25}}],
    }


CHECKED = {"R", "G", "w"}


def run_cir_loader(res):
    from CircuitCalculator.Circuit.dump_load import undictify_circuit, generate_component
    for name, comps in cir_docs().items():
        def stored(c, comps=comps):
            if [x.id for x in c.components] != [e["id"] for e in comps] or [tuple(x.nodes) for x in c.components] != [tuple(e["nodes"]) for e in comps] or [x.type for x in c.components] != [e["type"] for e in comps]:
                return "ids/nodes/types differ from the description"
            return None
        expect_accepts(res, "accepts_valid", {"group": "cir_loader", "base": name, "fault": "none"}, lambda: undictify_circuit({"components": copy.deepcopy(comps)}), stored)
        for i, e in enumerate(comps):
            d = copy.deepcopy(comps)
            d[i]["type"] = "flux_capacitor"
            expect_raises(res, "rejects_unknown_type", {"group": "cir_loader", "base": name, "fault": "unknown_type", "pos": i}, lambda d=d: undictify_circuit({"components": d}), "unknown component type accepted")
            for key in ("id", "type", "nodes", "value"):
                d = copy.deepcopy(comps)
                del d[i][key]
                expect_raises(res, "rejects_missing_field", {"group": "cir_loader", "base": name, "fault": "missing_field", "pos": i, "field": key}, lambda d=d: undictify_circuit({"components": d}), "component without %s accepted" % key)
                expect_raises(res, "rejects_missing_field", {"group": "cir_loader", "base": name, "fault": "missing_field_single", "pos": i, "field": key}, lambda d=d, i=i: generate_component(d[i]), "component without %s accepted" % key)
            first_key = sorted(e["value"].keys())[0]
            main_key = [k for k in e["value"] if k in ("R", "G", "V", "I", "Z")][0]
            d = copy.deepcopy(comps)
            del d[i]["value"][main_key]
            expect_raises(res, "rejects_missing_field", {"group": "cir_loader", "base": name, "fault": "missing_value_key", "pos": i, "field": main_key}, lambda d=d: undictify_circuit({"components": d}), "component without its %s accepted" % main_key)
            d = copy.deepcopy(comps)
            d[i]["value"]["bogus"] = 1
            expect_raises(res, "rejects_missing_field", {"group": "cir_loader", "base": name, "fault": "odd_value_key", "pos": i}, lambda d=d: undictify_circuit({"components": d}), "component with an undefined value key accepted")
            for par in e["value"]:
                if par in CHECKED:
                    for v in NEG:
                        d = copy.deepcopy(comps)
                        d[i]["value"][par] = v
                        expect_raises(res, "rejects_negative:" + par, {"group": "cir_loader", "base": name, "fault": "negative", "pos": i, "param": par, "value": v},
                                      lambda d=d: undictify_circuit({"components": d}), "negative %s accepted by the loader" % par)
                    d = copy.deepcopy(comps)
                    d[i]["value"][par] = 0
                    expect_accepts(res, "accepts_boundary_zero", {"group": "cir_loader", "base": name, "fault": "boundary_zero", "pos": i, "param": par}, lambda d=d: undictify_circuit({"components": d}))
        for i, j in itertools.combinations(range(len(comps)), 2):
            d = copy.deepcopy(comps)
            d[j]["id"] = d[i]["id"]
            expect_raises(res, "rejects_duplicate_id", {"group": "cir_loader", "base": name, "fault": "duplicate_id", "pos": [i, j]}, lambda d=d: undictify_circuit({"components": d}), "duplicate ids accepted")


# ------------------------------------------------------------------ waveforms
def run_waveforms(res):
    from CircuitCalculator.SignalProcessing import periodic_functions as pf
    from CircuitCalculator.Circuit.circuit import Circuit, transform_circuit
    from CircuitCalculator.Circuit import components as ccp
    from CircuitCalculator.Circuit.solution import TimeDomainSolution, FrequencyDomainSolution, ComplexSolution
    for wt in ("square", "", "RECT", "cosine", "rect "):
        expect_raises(res, "rejects_unknown_waveform", {"group": "waveforms", "fault": "lookup", "wavetype": wt}, lambda wt=wt: pf.periodic_function(wt), "unknown waveform name returns a class")
    for wt in ("const", "cos", "sin", "rect", "tri", "saw"):
        expect_accepts(res, "accepts_valid", {"group": "waveforms", "fault": "none", "wavetype": wt}, lambda wt=wt: pf.periodic_function(wt),
                       lambda cls, wt=wt: None if cls.wavetype == wt else "lookup returned %s" % cls.wavetype)

    class Foreign:
        period, amplitude, phase, offset, wavetype = 1.0, 1.0, 0.0, 0.0, "foreign"
    expect_raises(res, "rejects_unknown_waveform", {"group": "waveforms", "fault": "fourier_series_of_foreign_class"}, lambda: pf.fourier_series(Foreign()), "fourier series of an unknown waveform class returned")
    others = [lambda: ccp.resistor("R1", ("1", "2"), 5), lambda: ccp.capacitor("C1", ("2", "0"), 0.1), lambda: ccp.resistor("R2", ("2", "0"), 3)]
    for flavour in ("V", "I"):
        for pos in range(len(others) + 1):
            for wt in ("square", "RECT"):
                def mk(flavour=flavour, pos=pos, wt=wt):
                    lst = [f() for f in others]
                    src = ccp.periodic_voltage_source("S", ("1", "0"), wavetype=wt, V=1, w=2, phi=0) if flavour == "V" else ccp.periodic_current_source("S", ("0", "1"), wavetype=wt, I=1, w=2, phi=0)
                    lst.insert(pos, src)
                    return Circuit(lst + [ccp.ground(nodes=("0",))])
                for an, f in (("transform_on_harmonic", lambda c: transform_circuit(c, 2.0)), ("transform_off_harmonic", lambda c: transform_circuit(c, 0.7)),
                              ("complex_solution", lambda c: ComplexSolution(circuit=c, w=2.0)), ("time_domain", lambda c: TimeDomainSolution(circuit=c, w_max=7)),
                              ("frequency_domain", lambda c: FrequencyDomainSolution(circuit=c, w_max=7))):
                    expect_raises(res, "rejects_unknown_waveform", {"group": "waveforms", "fault": "analysis", "flavour": flavour, "pos": pos, "wavetype": wt, "analysis": an},
                                  lambda mk=mk, f=f: f(mk()), "analysis of a circuit with an unknown waveform returned a result")


# ------------------------------------------------------------------ unknown identifiers
def run_queries(res):
    from CircuitCalculator.Circuit.solution import DCSolution, ComplexSolution, TimeDomainSolution, FrequencyDomainSolution, TransientSolution
    from CircuitCalculator.Circuit.circuit import transform_circuit
    from CircuitCalculator.Network.NodalAnalysis.bias_point_analysis import nodal_analysis_bias_point_solver
    pool = {
        "q_rc": {"components": [["dc_voltage_source", "Vs", ["1", "0"], {"V": 2}], ["resistor", "R1", ["1", "2"], {"R": 5}], ["capacitor", "C1", ["2", "0"], {"C": "1/10"}], ["ground", "gnd", ["0"], {}]]},
        "q_rl": {"components": [["dc_current_source", "Is", ["0", "1"], {"I": 1}], ["resistor", "R1", ["1", "0"], {"R": 5}], ["inductance", "L1", ["1", "2"], {"L": "1/2"}], ["resistor", "R2", ["2", "0"], {"R": 3}], ["ground", "gnd", ["0"], {}]]},
    }
    unknown = ["nope", "", "r1", "3", "gnd"]
    for name, d in pool.items():
        circ = adapt.circuit(d)
        t = np.linspace(0, 1, 11)
        src = [c for c in d["components"] if c[0].endswith("source")][0][1]
        sols = {
            "network": lambda: nodal_analysis_bias_point_solver(transform_circuit(circ, 0)),
            "dc": lambda: DCSolution(circuit=circ),
            "complex": lambda: ComplexSolution(circuit=circ, w=1.0),
            "time_domain": lambda: TimeDomainSolution(circuit=circ, w_max=3),
            "frequency_domain": lambda: FrequencyDomainSolution(circuit=circ, w_max=3),
            "transient": lambda: TransientSolution(circuit=circ, tin=t, input={src: (lambda tt: np.ones_like(tt))}),
        }
        for sname, mk in sols.items():
            sol = mk()
            for getter in ("get_potential", "get_voltage", "get_current", "get_power"):
                ok_id = "1" if getter == "get_potential" else "R1"

                def call(sol=sol, getter=getter, ident=ok_id, sname=sname):
                    out = getattr(sol, getter)(ident)
                    if callable(out):
                        out = out(np.array([0.0, 0.5]))
                    return out
                expect_accepts(res, "accepts_valid", {"group": "queries", "base": name, "solution": sname, "getter": getter, "id": ok_id}, call, what="query for a known identifier raised")
                # node labels and element ids are separate name spaces: an element id is an unknown node, a node label an unknown element
                ids_here = [c[1] for c in d["components"] if c[0] != "ground"]
                nodes_here = sorted({n for c in d["components"] for n in c[2]})
                cross = ids_here if getter == "get_potential" else nodes_here
                for u in unknown + cross:
                    if getter == "get_potential" and u == "gnd":
                        continue
                    expect_raises(res, "unknown_id_raises:" + sname, {"group": "queries", "base": name, "solution": sname, "getter": getter, "id": u},
                                  lambda call=call, u=u, sol=sol, getter=getter: _query(sol, getter, u), "query for an unknown identifier returned a value")
        from CircuitCalculator.Circuit.circuit import Circuit
        for u in unknown[:3]:
            expect_raises(res, "unknown_id_raises:containers", {"group": "queries", "base": name, "solution": "Circuit[]", "id": u}, lambda u=u: circ[u], "Circuit[...] returned a component for an unknown id")
            expect_raises(res, "unknown_id_raises:containers", {"group": "queries", "base": name, "solution": "Network[]", "id": u}, lambda u=u: transform_circuit(circ, 0)[u], "Network[...] returned a branch for an unknown id")


def _query(sol, getter, ident):
    out = getattr(sol, getter)(ident)
    if callable(out):
        out = out(np.array([0.0, 0.5]))
    return out


# ------------------------------------------------------------------ declarative front end
def run_declarative(res):
    from CircuitCalculator.SimpleSimulation.schematic import create_schematic as _cs
    import warnings

    def create_schematic(d):
        try:
            with warnings.catch_warnings():
                warnings.simplefilter("ignore")
                return _cs(d)
        finally:
            try:
                import matplotlib.pyplot as plt
                plt.close("all")
            except Exception:
                pass
    base = {"unit": 7, "elements": [
        {"type": "voltage_source", "name": "V1", "V": 1, "direction": "up"},
        {"type": "resistor", "name": "R1", "R": 10, "direction": "right"},
        {"type": "resistor", "name": "R2", "R": 20, "direction": "down"},
        {"type": "line", "direction": "left"},
        {"type": "ground"},
    ]}
    expect_accepts(res, "accepts_valid", {"group": "declarative", "fault": "none"}, lambda: create_schematic(copy.deepcopy(base)))
    sol = {"type": "dc", "voltages": [{"name": "R1"}]}
    expect_accepts(res, "accepts_valid", {"group": "declarative", "fault": "none", "solution": True}, lambda: create_schematic(dict(copy.deepcopy(base), solution=copy.deepcopy(sol))))
    for i, e in enumerate(base["elements"]):
        d = copy.deepcopy(base)
        d["elements"][i]["type"] = "flux_capacitor"
        expect_raises(res, "rejects_unknown_type", {"group": "declarative", "fault": "unknown_type", "pos": i}, lambda d=d: create_schematic(d), "unknown element type accepted")
        d = copy.deepcopy(base)
        del d["elements"][i]["type"]
        expect_raises(res, "rejects_missing_field", {"group": "declarative", "fault": "missing_type", "pos": i}, lambda d=d: create_schematic(d), "element without type accepted")
        for key in ("V", "R"):
            if key in e:
                d = copy.deepcopy(base)
                del d["elements"][i][key]
                expect_raises(res, "rejects_missing_field", {"group": "declarative", "fault": "missing_value", "pos": i, "field": key}, lambda d=d: create_schematic(d), "element without its value accepted")
        if "R" in e:
            for v in NEG:
                d = dict(copy.deepcopy(base), solution=copy.deepcopy(sol))
                d["elements"][i]["R"] = v
                expect_raises(res, "rejects_negative:R", {"group": "declarative", "fault": "negative", "pos": i, "value": v}, lambda d=d: create_schematic(d), "negative resistance accepted by the declarative front end")
        if "name" in e and e["type"] != "voltage_source":
            d = copy.deepcopy(base)
            d["elements"][i]["name"] = "V1"
            d["solution"] = copy.deepcopy(sol)
            expect_raises(res, "rejects_duplicate_id", {"group": "declarative", "fault": "duplicate_id", "pos": i}, lambda d=d: create_schematic(d), "duplicate element names accepted by the declarative front end")
    for pos in range(len(base["elements"])):
        d = dict(copy.deepcopy(base), solution=copy.deepcopy(sol))
        d["elements"].insert(pos, {"type": "ground"})
        expect_raises(res, "rejects_second_ground", {"group": "declarative", "fault": "second_ground", "pos": pos}, lambda d=d: create_schematic(d), "second ground accepted by the declarative front end")


def vacuity(agg, tier):
    out = []
    need = ["accepts_valid", "accepts_boundary_zero", "accepted_stored_unaltered", "rejects_duplicate_id", "rejects_unreferenced_reference_node", "rejects_second_ground",
            "rejects_unknown_type", "rejects_unknown_waveform", "rejects_missing_field", "rejects_negative:R", "rejects_negative:G", "rejects_negative:C", "rejects_negative:L",
            "rejects_negative:w", "rejects_negative:P", "rejects_negative:V_ref", "unknown_id_raises:transient", "unknown_id_raises:dc", "unknown_id_raises:time_domain"]
    for k in need:
        if agg["hits"].get(k, 0) == 0:
            out.append("sub-check %s never fired" % k)
    return out


# ------------------------------------------------------------------ thorough: two faults of the same class in one description
def _single_faults_net(desc):
    """(class, label, mutate) for every single fault of a network-loader description"""
    out = []
    for i, e in enumerate(desc):
        out.append(("unknown_type", "type@%d" % i, lambda d, i=i: d[i].__setitem__("type", "flux_capacitor")))
        for key in list(e.keys()):
            out.append(("missing_field", "%s@%d" % (key, i), lambda d, i=i, key=key: d[i].pop(key, None)))
    for i, j in itertools.combinations(range(len(desc)), 2):
        out.append(("duplicate_id", "%d=%d" % (j, i), lambda d, i=i, j=j: d[j].__setitem__("id", d[i]["id"])))
    return out


def run_net_loader_double(res):
    from CircuitCalculator.Network.loaders import load_network
    for name, desc in net_descs().items():
        faults = _single_faults_net(desc)
        for (c1, l1, m1), (c2, l2, m2) in itertools.combinations(faults, 2):
            if c1 != c2:
                continue
            d = copy.deepcopy(desc)
            m1(d)
            m2(d)
            expect_raises(res, "rejects_two_faults:" + c1, {"group": "net_loader_double", "base": name, "fault": c1, "at": [l1, l2]}, lambda d=d: load_network(d),
                          "description with two %s faults accepted" % c1)


def _single_faults_cir(comps):
    out = []
    for i, e in enumerate(comps):
        out.append(("unknown_type", "type@%d" % i, lambda d, i=i: d[i].__setitem__("type", "flux_capacitor")))
        for key in ("id", "type", "nodes", "value"):
            out.append(("missing_field", "%s@%d" % (key, i), lambda d, i=i, key=key: d[i].pop(key, None)))
        for par in e["value"]:
            if par in CHECKED:
                out.append(("negative", "%s@%d" % (par, i), lambda d, i=i, par=par: d[i]["value"].__setitem__(par, -1.0)))
    for i, j in itertools.combinations(range(len(comps)), 2):
        out.append(("duplicate_id", "%d=%d" % (j, i), lambda d, i=i, j=j: d[j].__setitem__("id", d[i].get("id", "x"))))
    return out


def run_cir_loader_double(res):
    from CircuitCalculator.Circuit.dump_load import undictify_circuit
    for name, comps in cir_docs().items():
        faults = _single_faults_cir(comps)
        for (c1, l1, m1), (c2, l2, m2) in itertools.combinations(faults, 2):
            if c1 != c2:
                continue
            d = copy.deepcopy(comps)
            m1(d)
            m2(d)
            expect_raises(res, "rejects_two_faults:" + c1, {"group": "cir_loader_double", "base": name, "fault": c1, "at": [l1, l2]}, lambda d=d: undictify_circuit({"components": d}),
                          "circuit description with two %s faults accepted" % c1)
