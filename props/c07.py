"""C07 - every component becomes exactly one faithful network branch (shape S)."""
import itertools
from fractions import Fraction as F

from mc import adapt
from mc.ref import netlist as rn
from mc.ref import circuit as rc
from mc.runner import new_result, bump, fp, add_violation

ID = "C07"
LEVEL = "model_checking"
RULE = ("every component constructor x its parameter palette (including 0, infinity, w=0) x analysis frequency from an "
        "alphabet relative to the component's own frequency (0, on it, +-res/2, +-2res, 2x, 3x, unrelated) x resolution "
        "{1e-3, 1/2} x position (first/middle/last) among two bystanders taken from every other kind x ground "
        "{absent, first, last}; each transformation is compared branch by branch with the reference translation; "
        "states = distinct (circuit, w, resolution) inputs, transitions = transform_circuit calls judged; "
        "non-trivial = the subject component is not a ground"
        ' Additions: extreme parameter values (1e-15 .. 1e12); zero-amplitude harmonics of lossy periodic sources keep their immittance; the same description with NumPy-scalar and int-typed numbers.')
ASSUMPTIONS = ["float cos/sin within 1 ulp", "the closed-form harmonics of the reference waveforms (independently validated against quadrature by C08)"]
EXPLANATION = "direct exploration of the real circuit-to-network translation"

KINDS = ["resistor", "conductance", "impedance", "admittance", "capacitor", "inductance", "lamp", "resistive_load",
         "dc_voltage_source", "ac_voltage_source", "complex_voltage_source", "periodic_voltage_source",
         "dc_current_source", "ac_current_source", "complex_current_source", "periodic_current_source", "short_circuit"]
PHIS = ["0", "a34", "-pi/2", "2pi+a34"]
WAVES = ["rect", "tri", "saw", "cos", "sin"]


def budget_s(tier):
    return 900 if tier == "quick" else 3600


def variants(kind, tier):
    """parameter palette of one kind -> list of param dicts"""
    T = tier == "thorough"
    if kind == "resistor":
        return [{"R": r} for r in [7, 0, "1/1000", "inf", "1/1000000000000", 1000000000000] + ([1000000] if T else [])]
    if kind == "conductance":
        return [{"G": g} for g in [3, 0, "1/100", "1/1000000000000", 1000000000000]]
    if kind == "impedance":
        return [{"Z": z} for z in [[2, 3], [5, -1], [0, 4], ["1/1000000000000", 0], [0, "-1/100000000000"], [30000000000, 1]]]
    if kind == "admittance":
        return [{"Y": y} for y in [[2, 3], [5, -1], [0, 4], ["1/1000000000000", 0], [0, "-1/100000000000"], [30000000000, 1]]]
    if kind == "capacitor":
        return [{"C": c} for c in [2, 0, "1/1000", "1/1000000000000000", 1000000000]]
    if kind == "inductance":
        return [{"L": l} for l in [3, 0, "1/2", "1/1000000000000", 1000000000]]
    if kind in ("lamp", "resistive_load"):
        return [{"P": p, "V_ref": v} for p in [60, 0] for v in [12, 230]]
    if kind in ("dc_voltage_source", "dc_current_source"):
        k, r = ("V", "R") if "voltage" in kind else ("I", "G")
        return [{k: v, r: rr} for v in ["5/2", -2, "1/1000000000000"] for rr in [0, 3, "1/100000000000"]]
    if kind in ("ac_voltage_source", "ac_current_source"):
        k, r = ("V", "R") if "voltage" in kind else ("I", "G")
        return [{k: v, r: rr, "w": w, "phi": ph} for v in ["5/2", -2] for rr in [0, 3] for w in [0, 1, 50, 2000] for ph in (PHIS if T else PHIS[:3])]
    if kind == "complex_voltage_source":
        return [{"V": v, "Z": z} for v in [[1, 2], [-3, 0], [0, "1/1000000000000"]] for z in [[0, 0], [2, 1], [0, "1/100000000000"]]]
    if kind == "complex_current_source":
        return [{"I": v, "Y": z} for v in [[1, 2], [-3, 0], [0, "1/1000000000000"]] for z in [[0, 0], [2, 1], [0, "1/100000000000"]]]
    if kind in ("periodic_voltage_source", "periodic_current_source"):
        k, r = ("V", "R") if "voltage" in kind else ("I", "G")
        return [{"wavetype": wt, k: v, r: rr, "w": w, "phi": ph} for wt in WAVES for v in (["5/2", -2] if T else ["5/2"])
                for rr in [0, 3] for w in ["1/2", 3] for ph in (PHIS if T else PHIS[:2])]
    if kind == "short_circuit":
        return [{}]
    raise ValueError(kind)


def default_params(kind):
    return variants(kind, "quick")[0] if kind not in ("ac_voltage_source", "ac_current_source") else variants(kind, "quick")[4]


def freq_alphabet(p, res):
    ws = F(p.get("w", 0)) if not isinstance(p.get("w", 0), str) else F(p["w"])
    res = F(res)
    cand = [F(0), ws, ws + res / 2, ws - res / 2, ws + res * F(99, 100), ws - res * F(99, 100), ws + res * F(101, 100), ws - res * F(101, 100),
            ws + 2 * res, ws - 2 * res, 2 * ws, 3 * ws, 3 * ws + res / 2, 3 * ws + res * F(101, 100), F(7, 3)]
    out = []
    for w in cand:
        if w >= 0 and w not in out:
            out.append(w)
    return out


def shards(tier):
    out = []
    for ki, kind in enumerate(KINDS + ["ground"]):
        nv = 1 if kind == "ground" else len(variants(kind, tier))
        for v0 in range(0, nv, 8):
            out.append(("kind:" + kind, (kind, v0, min(nv, v0 + 8), tier)))
    return out


def run_shard(desc):
    kind, v0, v1, tier = desc
    res = new_result()
    keys = set()
    if kind == "ground":
        subjects = [("ground", {})]
    else:
        subjects = [(kind, p) for p in variants(kind, tier)[v0:v1]]
    others = [k for k in KINDS]
    for skind, sp_ in subjects:
        for bi, bk1 in enumerate(others):
            bk2 = others[(bi + 1) % len(others)]
            for pos in range(3):
                for gmode in ("absent", "first", "last", "elsewhere"):
                    if skind == "ground" and gmode == "absent":
                        continue
                    if skind != "ground" and gmode == "elsewhere" and pos != 1:
                        continue
                    comps = []
                    by = [[bk1, "B1", ["2", "0"], default_params(bk1)], [bk2, "B2", ["2", "1"], default_params(bk2)]]
                    subj = [skind, "S", ["1", "0"], sp_] if skind != "ground" else None
                    if subj is not None:
                        lst = list(by)
                        lst.insert(pos, subj)
                    else:
                        lst = list(by) + [["resistor", "R9", ["1", "0"], {"R": 5}]]
                    gnode = "0" if gmode != "elsewhere" else "2"
                    g = ["ground", "gnd", [gnode], {}]
                    if gmode == "first":
                        lst = [g] + lst
                    elif gmode == "last":
                        lst = lst + [g]
                    elif gmode == "elsewhere":
                        lst = lst[:1] + [g] + lst[1:]
                    d = {"components": lst}
                    for res_ in (F(1, 1000), F(1, 2)):
                        ws = freq_alphabet(sp_ if skind != "ground" else {}, res_)
                        for w in ws:
                            res["evals"] += 1
                            judge(d, w, res_, res, keys, skind != "ground")
                        judge_list(d, ws, res_, res)
    return res


def replay(case):
    res = new_result()
    if "w_list" in case:
        judge_list(case["circuit"], [F(x) for x in case["w_list"]], F(case["res"]), res)
    else:
        judge(case["circuit"], F(case["w"]), F(case["res"]), res, set(), True)
    return res["violations"]


def norm(b):
    """electrical normal form of a netlist branch: (class, immittance as Z or None, source value)"""
    kind, p = b[2], b[4]
    z, y = rn.immittance(b)
    zc = None if z is None else complex(z)
    yc = None if y is None else complex(y)
    if kind in ("short",) or (kind in ("Z", "R") and zc == 0):
        return ("short", None, None)
    if kind in ("open",) or (kind in ("Y", "G", "load") and yc == 0):
        return ("open", None, None)
    if kind in ("Z", "R", "Y", "G", "load"):
        return ("passive", zc if zc is not None else 1 / yc, None)
    if kind == "V":
        return ("V", None, rn.c(p[0]))
    if kind == "I":
        return ("I", None, rn.c(p[0]))
    if kind == "LV":
        return ("LV", zc, rn.c(p[0]))
    if kind == "LI":
        return ("LI", 1 / yc, rn.c(p[0]))
    raise ValueError(kind)


def close(a, b_, rtol=1e-12):
    if a is None or b_ is None:
        return a is None and b_ is None
    return abs(a - b_) <= rtol * max(abs(a), abs(b_), 1e-300)


def compare_networks(res, case, got, exp, desc):
    ok = True
    bump(res["hits"], "reference_node_rule")
    if got["ref"] != exp["ref"]:
        add_violation(res, "reference_node_rule", case, exp["ref"], got["ref"], "reference node is not the ground's node / first terminal")
        ok = False
    bump(res["hits"], "one_branch_per_component")
    gid = [b[3] for b in got["branches"]]
    eid = [b[3] for b in exp["branches"]]
    if sorted(gid) != sorted(eid):
        missing = [x for x in eid if x not in gid]
        extra = [x for x in gid if x not in eid or gid.count(x) > 1]
        kinds = {c[1]: c[0] for c in desc["components"]}
        add_violation(res, "one_branch_per_component", case, eid, gid,
                      "components omitted %s / duplicated or invented %s" % ([(m, kinds.get(m)) for m in missing], extra),
                      kind="omitted:" + ",".join(sorted({kinds.get(m, "?") for m in missing})) if missing else "extra")
        ok = False
    g = {b[3]: b for b in got["branches"]}
    for eb in exp["branches"]:
        gb = g.get(eb[3])
        if gb is None:
            continue
        bump(res["hits"], "id_and_terminal_order")
        if gb[0] != eb[0] or gb[1] != eb[1]:
            add_violation(res, "id_and_terminal_order", case, eb[:2], gb[:2], "terminal order of %s changed" % eb[3])
            ok = False
        ne, ng = norm(eb), norm(gb)
        ckind = {c[1]: c[0] for c in desc["components"]}[eb[3]]
        sub = "immittance_value" if ne[0] in ("passive", "short", "open") and not ckind.endswith("source") else \
            ("off_frequency_short_open" if ne[0] in ("short", "open") else "source_value_at_w")
        bump(res["hits"], sub + ":" + ckind)
        # (a lossy periodic source at a harmonic n*w0 whose amplitude is zero is still "at its own frequency": a zero-valued source
        # that keeps its internal immittance - the reading C02 and C09 need for their single-frequency phasors)
        if ne[0] != ng[0] or not close(ne[1], ng[1]) or not close(ne[2], ng[2], 1e-9):
            add_violation(res, sub, case, list(ne), list(ng), "branch of %s (%s) is not the component's value at w" % (eb[3], ckind), kind="wrong_value:" + ckind)
            ok = False
    return ok


def judge(desc, w, res_, res, keys, nontrivial):
    from CircuitCalculator.Circuit.circuit import transform_circuit
    case = {"circuit": desc, "w": str(w), "res": str(res_)}
    k = hash((repr(desc), w, res_))
    if k not in keys:
        keys.add(k)
        res["states"] += 1
        if nontrivial:
            res["nontrivial"] += 1
    res["transitions"] += 1
    exp = rc.netlist(desc, w, res_)
    try:
        circ = adapt.circuit(desc)
        net = transform_circuit(circ, float(w), float(res_))
        got = adapt.to_netlist(net)
    except Exception as e:
        kinds = sorted({c[0] for c in desc["components"]})
        add_violation(res, "one_branch_per_component", case, "a network", "%s: %s" % (type(e).__name__, e), "transformation raised", kind="exception:" + type(e).__name__)
        return
    res["fps"].add(fp(repr(got)))
    if len(res["samples"]) < 2:
        res["samples"].append({"circuit": desc, "w": str(w), "resolution": str(res_), "network": got})
    if not compare_networks(res, case, got, exp, desc):
        return
    # the same description with its numbers given as NumPy scalars / as Python ints (where integral), and the frequency
    # given as a NumPy scalar: the same network
    import numpy as np
    for numbers, wv in (("numpy", np.float64(float(w))), ("int", int(w) if w.denominator == 1 else float(w))):
        bump(res["hits"], "number_types")
        try:
            got2 = adapt.to_netlist(transform_circuit(adapt.circuit(desc, numbers=numbers), wv, float(res_)))
        except Exception as e:
            add_violation(res, "one_branch_per_component", dict(case, numbers=numbers), "a network", "%s: %s" % (type(e).__name__, e), "transformation raised for %s-typed values" % numbers, kind="exception:" + type(e).__name__)
            return
        if not compare_networks(res, dict(case, numbers=numbers), got2, exp, desc):
            return


def judge_list(desc, ws, res_, res):
    from CircuitCalculator.Circuit.circuit import transform, transform_circuit
    case = {"circuit": desc, "w_list": [str(w) for w in ws], "res": str(res_)}
    bump(res["hits"], "transform_list")
    res["transitions"] += 1
    try:
        circ = adapt.circuit(desc)
        nets = transform(circ, [float(w) for w in ws], float(res_))
        single = [transform_circuit(circ, float(w), float(res_)) for w in ws]
        a = [adapt.to_netlist(n) for n in nets]
        b_ = [adapt.to_netlist(n) for n in single]
    except Exception as e:
        bump(res["skipped"], "transform_list_raised_(reported_by_single_transformations)")
        return
    if a != b_:
        add_violation(res, "transform_list", case, b_, a, "transform(circuit, [w...]) differs from the list of transform_circuit")


def vacuity(agg, tier):
    out = []
    for k in ("reference_node_rule", "one_branch_per_component", "id_and_terminal_order", "transform_list"):
        if agg["hits"].get(k, 0) == 0:
            out.append("sub-check %s never fired" % k)
    for kind in KINDS:
        if not any(h.endswith(":" + kind) for h in agg["hits"]):
            out.append("kind %s never judged" % kind)
    return out
