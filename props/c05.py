"""C05 - power is conserved and has the physically right sign (shape S)."""
import itertools
import math
from fractions import Fraction as F
import numpy as np

from mc import space as sp
from mc import adapt
from mc.ref import netlist as rn
from mc.ref import circuit as rc
from mc.ref import dynamics as rd
from mc.runner import new_result, bump, fp, add_violation
from . import common as cm
from . import c02
from . import c09
from . import dyn

ID = "C05"
LEVEL = "model_checking"
RULE = ("network level: every well-posed network of the listed levels (all 7 kinds, every orientation and reference node, two "
        "palettes); circuit level: every well-posed component circuit of the listed levels x kind assignments (R, C, L, Z, G, lamp "
        "and dc/ac sources, ideal and lossy) x orientation at the source frequencies, 0 and an unrelated frequency, in RMS, peak "
        "and DC mode; time domain: every base circuit x source mix (1..2 sources) of the C09 alphabet x two w_max at 25 instants; "
        "transient: every non-degenerate RLC circuit of the small levels x two input shapes at every sample; judged on the "
        "library's own separately queried V, I and P; states = distinct (description, mode) judged, transitions = solutions "
        "judged; non-trivial = a solution with non-zero power somewhere"
        ' Additions: small-signal source kinds; spectral power lines (one- and two-sided, w != 0) of FrequencyDomainSolution; instants before t = 0.')
ASSUMPTIONS = ["numpy accuracy on the palettes", "powers are compared on the natural scale S_v*S_i of each solution"]
EXPLANATION = "direct exploration of get_power on network, DC, complex, time-domain and transient solutions"


def budget_s(tier):
    return 1200 if tier == "quick" else 5400


def shards(tier):
    out = []
    T = tier == "thorough"
    for (n, b, kinds, pals) in ([(2, 1, cm.KINDS7, ("real", "cplx")), (2, 2, cm.KINDS7, ("real", "cplx")), (2, 3, cm.KINDS7, ("cplx",)), (3, 2, cm.KINDS7, ("real", "cplx")),
                                 (3, 3, cm.KINDS7, ("cplx",)), (3, 4, cm.KINDS4, ("real",))] if not T else
                                [(2, 1, cm.KINDS7, ("real", "cplx", "dec")), (2, 2, cm.KINDS7, ("real", "cplx", "dec")), (2, 3, cm.KINDS7, ("real", "cplx")), (3, 2, cm.KINDS7, ("real", "cplx", "dec")),
                                 (3, 3, cm.KINDS7, ("real", "cplx")), (3, 4, cm.KINDS7, ("cplx",)), (4, 4, cm.KINDS4, ("real",))]):
        topos = sp.topologies(n, b)
        nk = len(kinds) ** b
        per = max(1, 3000 // ((2 ** b) * len(pals) * n))
        for ti in range(len(topos)):
            for ch in sp.chunks(range(nk), per):
                out.append(("network N(%d,%d)|K%d" % (n, b, len(kinds)), ("net", n, b, ti, kinds, ch[0], ch[-1] + 1, pals)))
    ck = ("R", "C", "L", "Z", "G", "lamp", "Vdc", "Vac", "Vacl", "Iac", "Idcl", "Vdcs", "Iacs") if not T else c02.K_ALL
    for (n, b) in ([(2, 2), (2, 3), (3, 3)] if not T else [(2, 2), (2, 3), (3, 2), (3, 3), (3, 4)]):
        kk = ck if b < 4 else c02.K5
        topos = sp.topologies(n, b)
        nk = len(kk) ** b
        for ti in range(len(topos)):
            for ch in sp.chunks(range(nk), max(1, 400 // (2 ** b * 5))):
                out.append(("circuit Cq(%d,%d)|K%d" % (n, b, len(kk)), ("cir", n, b, ti, kk, ch[0], ch[-1] + 1)))
    names = list(c09.SOURCES)
    for base in c09.BASES:
        for r in (1, 2):
            for mix in itertools.combinations(names, r):
                for fl in ("V", "I"):
                    out.append(("time-domain", ("td", base, mix, fl)))
    for (n, b) in [(2, 2), (2, 3), (3, 3), (2, 4)] + ([(3, 4)] if T else []):
        topos = sp.topologies(n, b)
        allk = dyn.kind_tuples(b)
        for ti in range(len(topos)):
            for ch in sp.chunks(range(len(allk)), 8):
                out.append(("transient RLC(%d,%d)" % (n, b), ("tr", n, b, ti, ch[0], ch[-1] + 1)))
    # one source and two reactive elements of one kind need five branches at least (the C10 twin family)
    topos = sp.topologies(3, 5)
    allk = dyn.kind_tuples(5, "twin")
    for ti in range(len(topos)):
        for ch in sp.chunks(range(len(allk)), 40):
            out.append(("transient RLC(3,5) twin reactive elements", ("trtwin", 3, 5, ti, ch[0], ch[-1] + 1)))
    return out


def run_shard(desc):
    res = new_result()
    if desc[0] == "net":
        _, n, b, ti, kinds, k0, k1, pals = desc
        topo = sp.topologies(n, b)[ti]
        allk = list(itertools.product(kinds, repeat=b))
        for kt in allk[k0:k1]:
            for pal in pals:
                nvar = 2 ** b * n
                res["evals"] += nvar
                if not cm.class_well_posed(topo, kt, pal):
                    bump(res["skipped"], "ill_posed_class", nvar)
                    continue
                for orient in range(2 ** b):
                    for ref_idx in range(n):
                        labels = sp.LABELS_PLAIN[:n] if (orient + ref_idx) % 2 == 0 else sp.LABELS_ODD[:n]
                        judge_net(cm.build_netlist(topo, kt, orient, ref_idx, labels, pal, sp.IDS_ASC[:b]), pal, res)
    elif desc[0] == "cir":
        _, n, b, ti, kk, k0, k1 = desc
        topo = sp.topologies(n, b)[ti]
        allk = list(itertools.product(kk, repeat=b))
        for kt in allk[k0:k1]:
            ws = [w for w in (F(0), F(1), F(2), F(7, 3)) if c02.class_wp(topo, kt, w)]
            res["evals"] += 2 ** b * 4
            bump(res["skipped"], "ill_posed_at_w", 2 ** b * (4 - len(ws)))
            for orient in range(2 ** b):
                d = c02.build_circuit(topo, kt, orient, n, ("none", "last", "odd")[orient % 3])
                for w in ws:
                    judge_cir(d, w, res)
    elif desc[0] == "td":
        _, base, mix, fl = desc
        d = c09.build(base, mix, fl)
        for wm in ("0", "3/2"):
            res["evals"] += 1
            judge_td(d, wm, res)
    else:
        _, n, b, ti, k0, k1 = desc
        topo = sp.topologies(n, b)[ti]
        allk = dyn.kind_tuples(b, "twin") if desc[0] == "trtwin" else dyn.kind_tuples(b)
        for kt in allk[k0:k1]:
            ok, why = dyn.class_non_degenerate(topo, kt)
            res["evals"] += 4
            if not ok:
                bump(res["skipped"], why, 4)
                continue
            for orient, scheme in ((0b0101 & (2 ** b - 1), "mix"), (0b1010 & (2 ** b - 1), "desc")):
                d = dyn.build(topo, kt, orient, dyn.ID_SCHEMES[scheme][:b], orient % n)
                for shape in ("ramp", "triangle"):
                    judge_tr(d, shape, res)
    return res


def replay(case):
    res = new_result()
    k = case["what"]
    if k == "net":
        judge_net(case["netlist"], case["palette"], res)
    elif k == "cir":
        judge_cir(case["circuit"], F(case["w"]), res)
    elif k == "td":
        judge_td(case["circuit"], case["w_max"], res)
    else:
        judge_tr(case["circuit"], case["shape"], res)
    return res["violations"]


def judge_net(nl, pal, res):
    from CircuitCalculator.Network.NodalAnalysis.bias_point_analysis import nodal_analysis_bias_point_solver
    case = {"what": "net", "netlist": nl, "palette": pal}
    res["states"] += 1
    res["transitions"] += 1
    rtol = cm.rtol_for(pal)
    try:
        sol = nodal_analysis_bias_point_solver(adapt.network(nl))
        V = {b[3]: complex(sol.get_voltage(b[3])) for b in nl["branches"]}
        I = {b[3]: complex(sol.get_current(b[3])) for b in nl["branches"]}
        P = {b[3]: complex(sol.get_power(b[3])) for b in nl["branches"]}
    except Exception as e:
        add_violation(res, "power_formula_network", case, "a solution", "%s: %s" % (type(e).__name__, e), "raised", kind="exception:" + type(e).__name__)
        return
    s_phi, s_i = rn.source_scale(nl)
    s_phi = max([s_phi] + [abs(v) for v in V.values()])
    s_i = max([s_i] + [abs(v) for v in I.values()])
    tol = rtol * s_phi * s_i
    if any(abs(p) > 1e-9 * s_phi * s_i for p in P.values()):
        res["nontrivial"] += 1
    bump(res["hits"], "power_formula_network")
    for b in nl["branches"]:
        if abs(P[b[3]] - V[b[3]] * I[b[3]].conjugate()) > tol:
            add_violation(res, "power_formula_network", case, V[b[3]] * I[b[3]].conjugate(), P[b[3]], "power of %s is not V*conj(I)" % b[3])
            return
    bump(res["hits"], "tellegen_sum_zero")
    tot = sum((-P[b[3]] if rn.reports_generator_direction(b) else P[b[3]]) for b in nl["branches"])
    if abs(tot) > tol * len(nl["branches"]):
        add_violation(res, "tellegen_sum_zero", case, 0, tot, "complex powers do not sum to zero")
    res["fps"].add(fp(*P.values()))
    if len(res["samples"]) < 1:
        res["samples"].append({"netlist": nl, "powers": {k: [v.real, v.imag] for k, v in P.items()}})


def judge_cir(d, w, res):
    from CircuitCalculator.Circuit.solution import ComplexSolution, DCSolution
    case = {"what": "cir", "circuit": d, "w": str(w)}
    res["states"] += 1
    try:
        circ = adapt.circuit(d)
        rms = ComplexSolution(circuit=circ, w=float(w))
        peak = ComplexSolution(circuit=circ, w=float(w), peak_values=True)
    except Exception as e:
        add_violation(res, "power_formula_rms", case, "a solution", "%s: %s" % (type(e).__name__, e), "raised", kind="exception:" + type(e).__name__)
        return
    res["transitions"] += 2
    comps = [c for c in d["components"] if c[0] != "ground"]
    nl = rc.netlist(d, w, c02.RES_DEFAULT)
    gen = {b[3]: rn.reports_generator_direction(b) for b in nl["branches"]}
    for mode, sol, fac in (("rms", rms, 1.0), ("peak", peak, 0.5)):
        V = {c[1]: complex(sol.get_voltage(c[1])) for c in comps}
        I = {c[1]: complex(sol.get_current(c[1])) for c in comps}
        P = {c[1]: complex(sol.get_power(c[1])) for c in comps}
        sv = max([1e-300] + [abs(v) for v in V.values()] + [rn.source_scale(nl)[0] * (1 if mode == "peak" else 1 / math.sqrt(2))])
        si = max([1e-300] + [abs(v) for v in I.values()] + [rn.source_scale(nl)[1] * (1 if mode == "peak" else 1 / math.sqrt(2))])
        tol = 1e-9 * sv * si
        if mode == "rms" and any(abs(p) > 1e-9 * sv * si for p in P.values()):
            res["nontrivial"] += 1
        bump(res["hits"], "power_formula_" + mode)
        for c in comps:
            if abs(P[c[1]] - fac * V[c[1]] * I[c[1]].conjugate()) > tol:
                add_violation(res, "power_formula_" + mode, case, fac * V[c[1]] * I[c[1]].conjugate(), P[c[1]], "%s power of %s is not %sV*conj(I)" % (mode, c[1], "1/2*" if fac != 1 else ""))
                return
        bump(res["hits"], "tellegen_sum_zero")
        tot = sum((-P[c[1]] if gen[c[1]] else P[c[1]]) for c in comps)
        if abs(tot) > tol * len(comps):
            add_violation(res, "tellegen_sum_zero", dict(case, mode=mode), 0, tot, "complex powers (%s) do not sum to zero" % mode)
            return
        for c in comps:
            p = P[c[1]]
            if c[0] == "resistor":
                bump(res["hits"], "resistor_power")
                R = rc.fl(c[3]["R"])
                if abs(p.imag) > tol or p.real < -tol or abs(p.real - fac * abs(I[c[1]]) ** 2 * R) > tol:
                    add_violation(res, "resistor_power", dict(case, mode=mode, element=c[1]), fac * abs(I[c[1]]) ** 2 * R, p, "resistor power is not real, non-negative and |I|^2 R")
                    return
            elif c[0] == "inductance":
                bump(res["hits"], "inductor_reactive")
                if abs(p.real) > tol or p.imag < -tol:
                    add_violation(res, "inductor_reactive", dict(case, mode=mode, element=c[1]), "Re P = 0, Q >= 0", p, "inductor power is not purely reactive with Q >= 0")
                    return
            elif c[0] == "capacitor":
                bump(res["hits"], "capacitor_reactive")
                if abs(p.real) > tol or p.imag > tol:
                    add_violation(res, "capacitor_reactive", dict(case, mode=mode, element=c[1]), "Re P = 0, Q <= 0", p, "capacitor power is not purely reactive with Q <= 0")
                    return
        res["fps"].add(fp(*P.values()))
    if w == 0:
        bump(res["hits"], "power_formula_dc")
        try:
            dc = DCSolution(circuit=circ)
            res["transitions"] += 1
            for c in comps:
                v, i, p = dc.get_voltage(c[1]), dc.get_current(c[1]), dc.get_power(c[1])
                sc = max(abs(v) * abs(i), rn.source_scale(nl)[0] * rn.source_scale(nl)[1])
                if isinstance(p, complex) or abs(p - v * i) > 1e-9 * sc:
                    add_violation(res, "power_formula_dc", dict(case, element=c[1]), v * i, p, "DC power of %s is not V*I" % c[1])
                    return
        except Exception as e:
            add_violation(res, "power_formula_dc", case, "DC solution", "%s: %s" % (type(e).__name__, e), "raised", kind="exception:" + type(e).__name__)


def judge_td(d, wm, res):
    from CircuitCalculator.Circuit.solution import TimeDomainSolution
    case = {"what": "td", "circuit": d, "w_max": wm}
    res["states"] += 1
    res["transitions"] += 1
    try:
        sol = TimeDomainSolution(circuit=adapt.circuit(d), w_max=float(F(wm)))
        ts = np.linspace(-12.5, 25.0, 25)
        comps = [c for c in d["components"] if c[0] != "ground"]
        bump(res["hits"], "power_formula_time")
        nz = False
        for c in comps:
            v = np.asarray(sol.get_voltage(c[1])(ts), float)
            i = np.asarray(sol.get_current(c[1])(ts), float)
            p = np.asarray(sol.get_power(c[1])(ts), float)
            sc = max(np.abs(v).max() * np.abs(i).max(), 1e-300)
            if np.abs(p).max() > 0:
                nz = True
            if p.shape != ts.shape or np.abs(p - v * i).max() > 1e-9 * sc:
                add_violation(res, "power_formula_time", dict(case, element=c[1]), (v * i)[:3].tolist(), p[:3].tolist(), "instantaneous power of %s is not v(t)*i(t)" % c[1])
                return
            # scalar instants as well as arrays
            p0 = float(np.asarray(sol.get_power(c[1])(ts[3])))
            if abs(p0 - v[3] * i[3]) > 1e-9 * sc:
                add_violation(res, "power_formula_time", dict(case, element=c[1], t=float(ts[3])), float(v[3] * i[3]), p0, "instantaneous power of %s at a scalar instant is not v*i" % c[1])
                return
        if nz:
            res["nontrivial"] += 1
        res["fps"].add(fp(float(p[1]), float(p[2])))
        # spectral power lines: one-sided line = V*conj(I)/2 of the element's own voltage and current lines; two-sided line =
        # c_V*conj(c_I) of the two-sided lines (so that the lines at +-w add up to the mean power of that frequency)
        from CircuitCalculator.Circuit.solution import FrequencyDomainSolution
        bump(res["hits"], "power_formula_spectrum")
        for one_sided in (True, False):
            fds = FrequencyDomainSolution(circuit=adapt.circuit(d), w_max=float(F(wm)), one_sided=one_sided)
            for c in comps:
                _, Xv = fds.get_voltage(c[1])
                _, Xi = fds.get_current(c[1])
                w_, Xp = fds.get_power(c[1])
                Xv, Xi, Xp = np.asarray(Xv, complex), np.asarray(Xi, complex), np.asarray(Xp, complex)
                # (the line at w = 0 is left out: whether a DC "peak phasor" carries the factor 1/2 is a convention the statement
                # only fixes for ComplexSolution, not for spectra)
                ac = np.asarray(w_, float) != 0
                exp = np.where(ac, (0.5 if one_sided else 1.0) * Xv * np.conj(Xi), Xp if Xp.shape == Xv.shape else 0)
                sc = max(np.abs(Xv).max() * np.abs(Xi).max(), 1e-300)
                if Xp.shape != exp.shape or np.abs(Xp - exp).max() > 1e-9 * sc:
                    k = int(np.argmax(np.abs(Xp - exp))) if Xp.shape == exp.shape else 0
                    add_violation(res, "power_formula_spectrum", dict(case, element=c[1], one_sided=one_sided, w=float(np.asarray(w_, float)[k])), complex(exp[k]), complex(Xp[k]) if Xp.shape == exp.shape else list(Xp.shape),
                                  "%s power line of %s is not the product of its own voltage and (conjugate) current lines" % ("one-sided" if one_sided else "two-sided", c[1]))
                    return
    except Exception as e:
        add_violation(res, "power_formula_time", case, "time-domain power", "%s: %s" % (type(e).__name__, e), "raised", kind="exception:" + type(e).__name__)


def judge_tr(d, shape, res):
    from CircuitCalculator.Circuit.solution import TransientSolution
    from . import c12
    case = {"what": "tr", "circuit": d, "shape": shape}
    res["states"] += 1
    res["transitions"] += 1
    try:
        circ, ssm = dyn.library_models(d)
        ev = np.linalg.eigvals(np.asarray(ssm.A, float))
        rate = max(np.abs(ev).max(), 1e-9)
        t = np.arange(161) / (20 * rate)
        srcs = rd.sources(d)
        fns = {s[1]: c12.shape_fn(shape if k == 0 else "constant", t[80], rc.fl(s[3]["V"] if s[0] == "dc_voltage_source" else s[3]["I"])) for k, s in enumerate(srcs)}
        sol = TransientSolution(circuit=circ, tin=t, input=fns)
        comps = [c for c in d["components"] if c[0] != "ground"]
        bump(res["hits"], "power_formula_transient")
        nz = False
        total, total_abs = 0.0, 0.0
        for c in comps:
            v = np.asarray(sol.get_voltage(c[1])[1], float)
            i = np.asarray(sol.get_current(c[1])[1], float)
            tp, p = sol.get_power(c[1])
            p = np.asarray(p, float)
            total = total + p
            total_abs = total_abs + np.abs(p)
            sc = max(np.abs(v).max() * np.abs(i).max(), 1e-300)
            if np.abs(p).max() > 0:
                nz = True
            if p.shape != v.shape or np.abs(p - v * i).max() > 1e-9 * sc or np.abs(np.asarray(tp, float) - t).max() > 1e-12 * t[-1]:
                add_violation(res, "power_formula_transient", dict(case, element=c[1]), (v * i)[40:43].tolist(), p[40:43].tolist(), "transient power of %s is not v*i at every sample" % c[1])
                return
        # at every sample the instantaneous powers of all elements sum to zero (every element in the passive convention, first -> second terminal)
        bump(res["hits"], "tellegen_sum_zero")
        if np.abs(total).max() > 1e-8 * max(np.abs(total_abs).max(), 1e-300):
            k = int(np.argmax(np.abs(total)))
            add_violation(res, "tellegen_sum_zero", dict(case, sample=k), 0.0, float(total[k]), "instantaneous powers of all elements do not sum to zero in the transient solution")
            return
        if nz:
            res["nontrivial"] += 1
        res["fps"].add(fp(float(p[50]), float(p[100])))
    except Exception as e:
        add_violation(res, "power_formula_transient", case, "transient power", "%s: %s" % (type(e).__name__, e), "raised", kind="exception:" + type(e).__name__)


def vacuity(agg, tier):
    out = []
    for k in ("tellegen_sum_zero", "resistor_power", "inductor_reactive", "capacitor_reactive", "power_formula_network", "power_formula_dc", "power_formula_rms", "power_formula_peak",
              "power_formula_time", "power_formula_transient"):
        if agg["hits"].get(k, 0) == 0:
            out.append("sub-check %s never fired" % k)
    return out
