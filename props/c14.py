"""C14 - numbers written on a schematic are the true circuit quantities (shape S)."""
import cmath
import copy
import itertools
import math
import re
from fractions import Fraction as F

from mc import adapt
from mc.ref import drawing as rdw
from mc.ref import numformat as nf
from mc.runner import new_result, bump, fp, add_violation
from . import c13
from . import c18

ID = "C14"
LEVEL = "model_checking"
RULE = ("every drawing of the pool (every symbol kind of C13 in a one-loop or divider context, both placement directions, both "
        "reversal flags for sources; plus two-mesh drawings; thorough: also every 2x2-lattice drawing of the C13 structure space) x every solution kind and display option (real: precision 1..5; "
        "complex at w=0 and single-frequency complex at the source frequency: precision {2,3,4} x Cartesian/polar x radians/degrees; "
        "time-domain steady state: sine reference x degrees x hertz) x every named element x {voltage, current, power} x both "
        "annotation directions, and every labelled node / ground for potentials; the text of every label produced by the real "
        "draw_* functions is parsed by the reference parser and compared with the quantity taken from the library's own solution "
        "of the translated circuit; the declarative solution section is driven for every solution type on the same quantities; "
        "states = distinct (drawing, solution configuration), transitions = labels judged; non-trivial = label of a non-zero quantity")
ASSUMPTIONS = ["the amplitude written in a sinusoid label is the RMS magnitude of the default (RMS) phasor solution (the statement asks for 'the corresponding quantity of the solution')",
               "label accuracy is judged with the C18 rules (half a unit of the last significant digit, 1e-9 slack)"]
EXPLANATION = "direct exploration of SchematicDiagramSolution.draw_* and create_schematic with a reference label parser"
UMK = "umk"


def budget_s(tier):
    return 600 if tier == "quick" else 1800


def drawings():
    out = []
    src_kinds = ["dc_v", "ac_v", "complex_v", "dc_i", "ac_i", "complex_i", "rect_v"]
    pas_kinds = ["resistor", "conductance", "impedance", "capacitor", "inductance", "lamp", "switch_closed", "labeled_wire"]
    params = {k: p for (k, p) in c13.kind_cases() if not p.get("deg") and not p.get("sin")}
    for kind in src_kinds:
        for fwd in (True, False):
            for rev in (False, True):
                p, q = ((0, 0), (0, 1)) if fwd else ((0, 1), (0, 0))
                sym = {"op": "sym", "kind": kind, "name": "X1", "p": list(p), "q": list(q), "params": params[kind], "reverse": rev}
                out.append([sym, {"op": "sym", "kind": "impedance", "name": "Zl", "p": [0, 1], "q": [1, 1], "params": {"Z": [5.0, 2.0]}}, {"op": "wire", "p": [1, 1], "q": [1, 0]},
                            {"op": "wire", "p": [1, 0], "q": [0, 0]}, {"op": "ground", "p": [0, 0]}, {"op": "label", "name": "out", "p": [0, 1]}])
    for kind in pas_kinds:
        for fwd in (True, False):
            p, q = ((0, 1), (0, 0)) if fwd else ((0, 0), (0, 1))
            sym = {"op": "sym", "kind": kind, "name": "X1", "p": list(p), "q": list(q), "params": params[kind]}
            for skind, sp_ in (("ac_v", {"V": 3.0, "w": 1.0, "phi": 0.7}), ("dc_v", {"V": 3.0})):
                out.append([{"op": "sym", "kind": skind, "name": "Vs", "p": [1, 0], "q": [1, 1], "params": sp_}, {"op": "sym", "kind": "resistor", "name": "Rs", "p": [1, 1], "q": [0, 1], "params": {"R": 2.0}},
                            sym, {"op": "wire", "p": [0, 0], "q": [1, 0]}, {"op": "ground", "p": [1, 0]}, {"op": "label", "name": "out", "p": [0, 1]}])
    # two meshes, a current source, different magnitudes
    out.append([{"op": "sym", "kind": "dc_v", "name": "V1", "p": [0, 0], "q": [0, 1], "params": {"V": 12.0}}, {"op": "sym", "kind": "resistor", "name": "R1", "p": [0, 1], "q": [1, 1], "params": {"R": 4700.0}},
                {"op": "sym", "kind": "resistor", "name": "R2", "p": [1, 1], "q": [1, 0], "params": {"R": 0.33}}, {"op": "sym", "kind": "dc_i", "name": "I1", "p": [2, 0], "q": [2, 1], "params": {"I": 0.002}},
                {"op": "wire", "p": [1, 1], "q": [2, 1]}, {"op": "wire", "p": [2, 0], "q": [1, 0]}, {"op": "wire", "p": [1, 0], "q": [0, 0]}, {"op": "ground", "p": [0, 0]}, {"op": "label", "name": "mid", "p": [1, 1]}])
    return out


def configs(tier):
    out = []
    T = tier == "thorough"
    for p in ((1, 2, 3, 4, 5, 6) if T else (1, 2, 3, 4, 5)):
        out.append(("real", {"precision": p}))
    if T:
        for polar in (False, True):
            out.append(("single_frequency_complex", {"w": 3.0, "precision": 3, "polar": polar, "deg": polar}))
        for sin in (False, True):
            out.append(("time_domain", {"w": 3.0, "sin": sin, "deg": True, "hertz": sin}))
    for p in ((1, 2, 3, 4, 5, 6) if T else (2, 3, 4)):
        for polar in (False, True):
            for deg in ((False, True) if polar else (False,)):
                out.append(("complex", {"precision": p, "polar": polar, "deg": deg}))
                out.append(("single_frequency_complex", {"w": 1.0, "precision": p, "polar": polar, "deg": deg}))
    for sin in (False, True):
        for deg in (False, True):
            for hz in (False, True):
                out.append(("time_domain", {"w": 1.0, "sin": sin, "deg": deg, "hertz": hz}))
    out.append(("time_domain", {"w": 0.0, "sin": False, "deg": False, "hertz": False}))
    return out


def shards(tier):
    out = []
    for di in range(len(drawings())):
        out.append(("direct draw_*", ("D", di, tier)))
    for k in range(len(declarative_cases())):
        out.append(("declarative solution section", ("S", k)))
    if tier == "thorough":
        n = len(c13.edge_options("quick"))
        for a in range(n):
            for b in range(n):
                out.append(("every 2x2 lattice drawing of C13 (real and polar-degree annotations)", ("A", a, b)))
    return out


def run_shard(desc):
    res = new_result()
    if desc[0] == "A":
        opts = c13.edge_options("quick")
        for c_ in range(len(opts)):
            for d_ in range(len(opts)):
                sel = [opts[desc[1]], opts[desc[2]], opts[c_], opts[d_]]
                base = [c13.make_item(o, c13.EDGES2[k], k) for k, o in enumerate(sel) if o is not None]
                if not any(it["op"] == "sym" for it in base):
                    continue
                touched = sorted({tuple(it[k]) for it in base if it["op"] == "sym" for k in ("p", "q")})   # the ground sits on a symbol's terminal
                prog = base + [{"op": "ground", "p": list(touched[0])}]
                for kind, o in (("real", {"precision": 3}), ("complex", {"precision": 4, "polar": True, "deg": True})):
                    judge_direct(prog, kind, o, res)
        return res
    if desc[0] == "D":
        prog = drawings()[desc[1]]
        for kind, opts in configs(desc[2]):
            judge_direct(prog, kind, opts, res)
    else:
        judge_declarative(declarative_cases()[desc[1]], res)
    return res


def replay(case):
    res = new_result()
    if "declarative" in case:
        judge_declarative(case["declarative"], res)
    elif case.get("extended_after_first_annotation"):
        # the sequence is rebuilt: annotate the drawing without its last item, extend it, annotate again
        judge_direct(case["program"][:-1], case["solution"], case["options"], res)
        return [v for v in res["violations"] if v["case"].get("extended_after_first_annotation") and v["case"].get("label") == case.get("label")]
    else:
        judge_direct(case["program"], case["solution"], case["options"], res, only=case.get("label"))
    return res["violations"]


# ------------------------------------------------------------------ label parsing
def label_text(el):
    labs = getattr(el, "_userlabels", [])
    if labs:
        return labs[-1].label
    return getattr(el, "name", None)


def parse_label(text, form, unit, precision, opts):
    """-> complex value denoted by the label (and per-part check info), raises ValueError"""
    tbl = c18.TABLES[UMK]
    if form == "real":
        p = nf.parse_number(text, unit, tbl)
        return {"kind": "real", "parsed": p}
    if form == "power_real":
        arrow = text[-1]
        if arrow not in "↓↑":
            raise ValueError("no direction marker in %r" % text)
        p = nf.parse_number(text[:-1], "W", nf.DEFAULT_PREFIXES)
        return {"kind": "power", "parsed": p, "absorbed": arrow == "↓"}
    if form == "complex":
        if opts.get("polar"):
            if "∠" in text:
                mag_t, ang_t = text.split("∠")
                ang = float(ang_t.rstrip("°"))
                if bool(opts.get("deg")) != ang_t.endswith("°"):
                    raise ValueError("degree marker inconsistent in %r" % text)
            else:
                mag_t, ang = text, None
            return {"kind": "polar", "mag": nf.parse_number(mag_t, unit, tbl), "angle": ang}
        re_t, re_s, im_t, im_s = c18.split_cartesian(text)
        return {"kind": "cart", "re": None if re_t is None else nf.parse_number(re_t, unit, tbl), "re_sign": re_s,
                "im": None if im_t is None else nf.parse_number(im_t, unit, tbl), "im_sign": im_s}
    if form == "sinusoid":
        m = re.match(r"^(.*?)·(cos|sin)\((2π·)?(.*?)·t(?:([+-])(.*?))?\)$", text)
        if not m:
            # w = 0: plain magnitude
            return {"kind": "sinusoid", "amp": nf.parse_number(text, unit, tbl), "fn": None, "w": None, "phase": None}
        amp_t, fn, twopi, w_t, sgn, ph_t = m.groups()
        amp = nf.parse_number(amp_t, unit, tbl)
        if twopi:
            wp = nf.parse_number(w_t, "Hz", {-3: 'm', 3: 'k', 6: 'M', 9: 'G', 12: 'T'})
            w = float(wp["value"]) * 2 * math.pi
        else:
            wp = nf.parse_number(w_t, "/s", None)
            w = float(wp["value"])
        phase = None
        if ph_t is not None:
            pp = nf.parse_number(ph_t, "°" if opts.get("deg") else "", None)
            phase = float(pp["value"]) * (1 if sgn == "+" else -1)
            if opts.get("deg"):
                phase = math.radians(phase)
            if bool(opts.get("deg")) != ph_t.endswith("°"):
                raise ValueError("degree marker inconsistent in %r" % text)
        return {"kind": "sinusoid", "amp": amp, "fn": fn, "w": w, "w_parsed": wp, "phase": phase, "phase_parsed": pp if ph_t is not None else None}
    raise ValueError(form)


def check_label(res, case, sub, text, form, unit, precision, opts, true_value):
    """true_value: the quantity the label must denote (float for real forms, complex otherwise)"""
    bump(res["hits"], sub)
    res["transitions"] += 1
    res["evals"] += 1          # one evaluation = one label produced by the real code and judged
    if abs(true_value) > 0:
        res["nontrivial"] += 1
    res["fps"].add(hash(text) & 0xFFFFFFFFFFFF)
    try:
        L = parse_label(text, form, unit, precision, opts)
    except ValueError as e:
        add_violation(res, sub, case, "parsable label", "%r (%s)" % (text, e), "label text does not parse", kind="unparsable")
        return
    tmp = new_result()
    c = dict(case, text=text)
    if L["kind"] == "real":
        tv = float(true_value.real if isinstance(true_value, complex) else true_value)
        if tv == 0:
            if L["parsed"].get("inf") or L["parsed"]["value"] != 0:
                add_violation(res, sub, c, 0, text, "label of a zero quantity is not zero")
            return
        c18.check_number(tmp, c, L["parsed"], tv, precision, UMK)
    elif L["kind"] == "power":
        tv = float(true_value.real if isinstance(true_value, complex) else true_value)
        if tv != 0 and (L["absorbed"] != (tv > 0)):
            add_violation(res, sub, c, "↓ iff absorbed (positive)", text, "power direction marker contradicts the sign of the power")
            return
        if tv != 0:
            c18.check_number(tmp, c, L["parsed"], abs(tv), precision, "default")
    elif L["kind"] == "cart":
        z = complex(true_value)
        for part, P, sgn, nm in ((z.real, L["re"], L["re_sign"], "real"), (z.imag, L["im"], L["im_sign"], "imaginary")):
            if P is None:
                if abs(part) >= 10.0 ** (-6 + precision):
                    add_violation(res, sub, c, part, "suppressed", "%s part missing from the label" % nm)
                    return
                continue
            if part == 0:
                if not P.get("inf") and P["value"] != 0:
                    add_violation(res, sub, c, 0, float(P["value"]), "%s part is zero but the label shows a value" % nm)
                    return
                continue
            if abs(part) < 10.0 ** (-6 - 3):
                continue
            P = dict(P, value=sgn * P["value"]) if not P.get("inf") else dict(P, sign=sgn * P.get("sign", 1))
            c18.check_number(tmp, c, P, part, precision, UMK)
    elif L["kind"] == "polar":
        z = complex(true_value)
        if abs(z) > 0:
            c18.check_number(tmp, c, L["mag"], abs(z), precision, UMK)
            ta = math.degrees(cmath.phase(z)) if opts.get("deg") else cmath.phase(z)
            if L["angle"] is None:
                if abs(ta) > (1e-2 if opts.get("deg") else 1e-5) * (1 + 1e-9):
                    add_violation(res, sub, c, ta, "angle omitted", "angle omitted although it is not negligible")
                    return
            else:
                hu = 0.5 * (1e-2 if opts.get("deg") else 1e-4)
                d = abs(L["angle"] - ta)
                d = min(d, abs(d - (360 if opts.get("deg") else 2 * math.pi)))
                if d > hu * (1 + 1e-6) + 1e-12:
                    add_violation(res, sub, c, ta, L["angle"], "angle of the polar label is not the angle of the quantity")
                    return
    elif L["kind"] == "sinusoid":
        z = complex(true_value)
        if abs(z) == 0:
            return
        c18.check_number(tmp, c, L["amp"], abs(z), precision, UMK)
        if L["fn"] is None:
            if opts.get("w", 0) != 0:
                add_violation(res, sub, c, "a time function", text, "no time function in the label although w != 0")
            return
        if (L["fn"] == "sin") != bool(opts.get("sin")):
            add_violation(res, sub, c, "sin" if opts.get("sin") else "cos", L["fn"], "wrong reference function")
            return
        if abs(L["w"] - opts["w"]) > 0.5 * 10 ** (math.floor(math.log10(abs(opts["w"]))) - precision + 1) * (2 * math.pi if opts.get("hertz") else 1) * 1.001:
            add_violation(res, sub, c, opts["w"], L["w"], "angular frequency in the label is not the analysis frequency")
            return
        # the function of time the label spells out, as a cosine-reference phasor angle
        shown = (L["phase"] or 0.0) - (math.pi / 2 if L["fn"] == "sin" else 0.0)
        true_ang = cmath.phase(z)
        d = abs((shown - true_ang + math.pi) % (2 * math.pi) - math.pi)
        # phase is printed with `precision` significant digits (radians or degrees): half a unit of its last digit
        pa = abs(L["phase"]) if L["phase"] else 0.0
        if opts.get("deg"):
            pa_deg = math.degrees(pa)
            hu = math.radians(0.5 * 10 ** (math.floor(math.log10(pa_deg)) - precision + 1)) if pa_deg > 0 else 0
        else:
            hu = 0.5 * 10 ** (math.floor(math.log10(pa)) - precision + 1) if pa > 0 else 0
        if L["phase"] is None:
            hu = 1e-4
        if d > hu * 1.001 + 1e-9:
            add_violation(res, "forms_agree", c, true_ang, shown, "the time function written in the label (%s reference) is not the quantity's: phase off by %.4f rad" % (L["fn"], d),
                          kind="sine_reference_negated" if abs(d - math.pi) < 1e-2 else "wrong_value")
            return
    for v in tmp["violations"]:
        add_violation(res, sub, c, v["expected"], v["observed"], "label does not denote the quantity to the displayed precision (%s: %s)" % (v["subcheck"], v["msg"]), kind=v.get("kind", "wrong_value"))
        return


# ------------------------------------------------------------------ direct draw_*
def make_solution(kind, sch, opts):
    from CircuitCalculator.SimpleCircuit import DiagramSolution as ds
    if kind == "real":
        return ds.real_solution(sch, precision=opts["precision"])
    if kind == "complex":
        return ds.complex_solution(sch, precision=opts["precision"], polar=opts["polar"], deg=opts["deg"])
    if kind == "single_frequency_complex":
        return ds.single_frequency_complex_solution(sch, w=opts["w"], precision=opts["precision"], polar=opts["polar"], deg=opts["deg"])
    if kind == "time_domain":
        return ds.single_frequency_time_domain_steady_state_solution(sch, w=opts["w"], sin=opts["sin"], deg=opts["deg"], hertz=opts["hertz"])
    raise ValueError(kind)


def truth(kind, circ, opts):
    from CircuitCalculator.Circuit.solution import ComplexSolution, DCSolution
    if kind == "real":
        return DCSolution(circuit=circ)
    return ComplexSolution(circuit=circ, w=opts.get("w", 0.0))


def judge_direct(prog, kind, opts, res, only=None):
    from CircuitCalculator.SimpleCircuit.DiagramTranslator import circuit_translator
    case0 = {"program": prog, "solution": kind, "options": opts}
    res["states"] += 1
    try:
        sch = adapt.build_schematic(prog, {}, "dir")
        circ = circuit_translator(sch)
        ref = truth(kind, circ, opts)
        sol = make_solution(kind, sch, opts)
    except Exception as e:
        add_violation(res, "label_value_voltage", case0, "a diagram solution", "%s: %s" % (type(e).__name__, e), "building the annotated solution raised", kind="exception:" + type(e).__name__)
        return
    precision = opts.get("precision", 3)
    form = {"real": "real", "complex": "complex", "single_frequency_complex": "complex", "time_domain": "sinusoid"}[kind]
    names = [it["name"] for it in prog if it["op"] == "sym"]
    for name in names:
        for q, unit, getter, drawer in (("voltage", "V", "get_voltage", "draw_voltage"), ("current", "A", "get_current", "draw_current"), ("power", "W", "get_power", "draw_power")):
            for rev in (False, True):
                lab = [name, q, rev]
                if only is not None and list(only) != lab:
                    continue
                case = dict(case0, label=lab)
                try:
                    el = getattr(sol, drawer)(name, reverse=rev)
                    text = label_text(el)
                    tv = getattr(ref, getter)(name)
                except Exception as e:
                    add_violation(res, "label_value_" + q, case, "a label", "%s: %s" % (type(e).__name__, e), "draw_%s raised" % q, kind="exception:" + type(e).__name__)
                    continue
                tv = (-1 if rev else 1) * tv
                f = form
                if kind == "real" and q == "power":
                    f = "power_real"
                check_label(res, case, "label_value_" + q, text, f, unit, precision, opts, tv)
                if rev:
                    bump(res["hits"], "reverse_negates")
    for it in prog:
        if it["op"] in ("label", "ground"):
            name = it["name"] if it["op"] == "label" else it.get("name", "0")
            lab = [name, "potential", False]
            if only is not None and list(only) != lab:
                continue
            case = dict(case0, label=lab)
            try:
                el = sol.draw_potential(name)
                text = label_text(el)
                tv = ref.get_potential(name)
            except Exception as e:
                add_violation(res, "label_value_potential", case, "a label", "%s: %s" % (type(e).__name__, e), "draw_potential raised", kind="exception:" + type(e).__name__)
                continue
            check_label(res, case, "label_value_potential", text, form, "V", precision, opts, tv)
    if kind != "real":
        bump(res["hits"], "forms_agree")
    if len(res["samples"]) < 1:
        res["samples"].append({"program": prog, "solution": kind, "options": opts})
    # the drawing is extended after it has been annotated once (a resistor across the first symbol) and annotated again with a new
    # solution object: the numbers are those of the drawing as it is now
    syms = [it for it in prog if it["op"] == "sym"]
    if only is None and syms:
        bump(res["hits"], "annotate_extend_annotate")
        extra = {"op": "sym", "kind": "resistor", "name": "Rx", "p": list(syms[0]["p"]), "q": list(syms[0]["q"]), "params": {"R": 3.0}}
        case2 = dict(case0, program=prog + [extra], extended_after_first_annotation=True)
        try:
            adapt.extend_schematic(sch, [extra], {}, "dir")
            circ2 = circuit_translator(sch)
            ref2 = truth(kind, circ2, opts)
            sol2 = make_solution(kind, sch, opts)
        except Exception as e:
            # (a resistor across an ideal voltage source keeps the circuit well-posed; across anything else too)
            add_violation(res, "label_value_voltage", case2, "a diagram solution", "%s: %s" % (type(e).__name__, e), "annotating the extended drawing raised", kind="exception:" + type(e).__name__)
            return
        for name in [n for n in names[:2]] + ["Rx"]:
            for q, unit, getter, drawer in (("voltage", "V", "get_voltage", "draw_voltage"), ("current", "A", "get_current", "draw_current")):
                try:
                    text = label_text(getattr(sol2, drawer)(name, reverse=False))
                    tv = getattr(ref2, getter)(name)
                except Exception as e:
                    add_violation(res, "label_value_" + q, dict(case2, label=[name, q, False]), "a label", "%s: %s" % (type(e).__name__, e), "draw_%s raised on the extended drawing" % q, kind="exception:" + type(e).__name__)
                    continue
                check_label(res, dict(case2, label=[name, q, False]), "label_value_" + q, text, form, unit, precision, opts, tv)


# ------------------------------------------------------------------ declarative solution section
def declarative_cases():
    base = [{"type": "ground"}, {"type": "ac_voltage_source", "name": "V1", "V": 2.5, "w": 1.0, "phi": 0.4, "direction": "up"},
            {"type": "resistor", "name": "R1", "R": 10.0, "direction": "right"}, {"type": "capacitor", "name": "C1", "C": 0.05, "direction": "down"},
            {"type": "line", "direction": "left"}, {"type": "node", "name": "a", "place_after": "R1"}]
    base_dc = [{"type": "ground"}, {"type": "voltage_source", "name": "V1", "V": 12.0, "direction": "up"}, {"type": "resistor", "name": "R1", "R": 10.0, "direction": "right"},
               {"type": "resistor", "name": "R2", "R": 4700.0, "direction": "down"}, {"type": "line", "direction": "left"}, {"type": "node", "name": "a", "place_after": "R1"}]
    out = []
    for rev in (False, True):
        q = {"voltages": [{"name": "R1", "reverse": rev}, {"name": "V1", "reverse": rev}], "currents": [{"name": "R1", "reverse": rev}], "powers": [{"name": "R1", "reverse": rev}], "potentials": [{"name": "a"}]}
        for styp in ("dc", "real"):
            for p in (2, 3, 4):
                out.append({"unit": 3, "elements": base_dc, "solution": dict({"type": styp, "precision": p}, **q)})
        for p in (3, 4):
            for polar, deg in ((False, False), (True, False), (True, True)):
                out.append({"unit": 3, "elements": base, "solution": dict({"type": "complex", "precision": p, "polar": polar, "deg": deg}, **q)})
                out.append({"unit": 3, "elements": base, "solution": dict({"type": "single_frequency_time_domain", "w": 1.0, "precision": p, "polar": polar, "deg": deg}, **q)})
    return out


def judge_declarative(spec, res):
    from CircuitCalculator.SimpleSimulation.schematic import create_schematic
    from CircuitCalculator.SimpleCircuit.DiagramTranslator import circuit_translator
    from CircuitCalculator.SimpleCircuit import Elements as elm
    from CircuitCalculator.Circuit.solution import ComplexSolution, DCSolution
    case0 = {"declarative": spec}
    res["states"] += 1
    s = spec["solution"]
    try:
        plain = create_schematic({"unit": spec["unit"], "elements": copy.deepcopy(spec["elements"])})
        circ = circuit_translator(plain)
        # one description object rendered twice: the second rendering is the one judged below (a description is a
        # value -- rendering it must not consume or rewrite its solution section), and both must show the same texts
        given = copy.deepcopy(spec)
        first = create_schematic(given)
        sch = create_schematic(given)
        _close_figures()
    except Exception as e:
        add_violation(res, "declarative_solution_section", case0, "an annotated schematic", "%s: %s" % (type(e).__name__, e), "create_schematic raised", kind="exception:" + type(e).__name__)
        return
    bump(res["hits"], "declarative_rendered_twice")
    if given != spec:
        add_violation(res, "declarative_rendered_twice", case0, spec["solution"], given.get("solution"), "create_schematic modified the description it was given")
    texts = [[label_text(e) for e in x.elements if type(e) in (elm.VoltageLabel, elm.CurrentLabel, elm.PowerLabel) or isinstance(e, elm.LabelNode)] for x in (first, sch)]
    if texts[0] != texts[1]:
        add_violation(res, "declarative_rendered_twice", case0, texts[0], texts[1], "rendering the same description a second time shows different annotations")
    ref = DCSolution(circuit=circ) if s["type"] in ("dc", "real") else ComplexSolution(circuit=circ, w=s.get("w", 0.0))
    form = "real" if s["type"] in ("dc", "real") else "complex"
    opts = {"polar": s.get("polar", False), "deg": s.get("deg", False)}
    labels = {"voltage": [e for e in sch.elements if type(e) is elm.VoltageLabel], "current": [e for e in sch.elements if type(e) is elm.CurrentLabel],
              "power": [e for e in sch.elements if type(e) is elm.PowerLabel],
              "potential": [e for e in sch.elements if isinstance(e, elm.LabelNode)]}
    for q, key, unit, getter in (("voltage", "voltages", "V", "get_voltage"), ("current", "currents", "A", "get_current"), ("power", "powers", "W", "get_power"), ("potential", "potentials", "V", "get_potential")):
        want = s.get(key, [])
        bump(res["hits"], "declarative_solution_section")
        if len(labels[q]) != len(want):
            add_violation(res, "declarative_solution_section", dict(case0, quantity=q), len(want), len(labels[q]), "number of %s annotations differs from the request" % q)
            continue
        for req, el in zip(want, labels[q]):
            tv = getattr(ref, getter)(req["name"])
            if req.get("reverse"):
                tv = -tv
            f = "power_real" if (form == "real" and q == "power") else form
            check_label(res, dict(case0, label=[req["name"], q, bool(req.get("reverse"))]), "declarative_solution_section", label_text(el), f, unit, s.get("precision", 3), opts, tv)


def _close_figures():
    """create_schematic draws into a new matplotlib figure each time; release them (worker memory)"""
    try:
        import matplotlib.pyplot as plt
        plt.close("all")
    except Exception:
        pass


def vacuity(agg, tier):
    out = []
    for k in ("label_value_voltage", "label_value_current", "label_value_power", "label_value_potential", "reverse_negates", "forms_agree", "declarative_solution_section", "declarative_rendered_twice"):
        if agg["hits"].get(k, 0) == 0:
            out.append("sub-check %s never fired" % k)
    return out
