"""C09 - multi-frequency steady state is the superposition of single-frequency solutions (shape S)."""
import itertools
import math
from fractions import Fraction as F
import numpy as np

from mc import adapt
from mc.ref import netlist as rn
from mc.ref import circuit as rc
from mc.runner import new_result, bump, fp, add_violation
from . import common as cm

ID = "C09"
LEVEL = "model_checking"
RULE = ("every base RLC circuit of the pool x every mix of 1..3 sources from the source alphabet (DC, AC at three "
        "frequencies, rect/tri/saw periodic at two fundamentals; ideal and lossy; voltage and current flavour) - the "
        "alphabet produces disjoint frequencies, bit-identical coincidences (w0=1/2 with 3/2) and coincidences within the "
        "resolution that are not bit-identical (3*0.1 with 0.3) - x every w_max of {0, below w0, between harmonics, exactly "
        "on a dyadic harmonic, ten harmonics} x one-/two-sided spectra x a grid of 25 instants over two fundamental periods; "
        "states = distinct (circuit, w_max), transitions = library solutions judged; non-trivial = at least two spectral lines"
        ' Additions: high-frequency family (lines 0.002 .. 0.05 rad/s apart at 1e4 rad/s), near-coincident frequencies across rounding cells, small-signal family (1e-9 amplitudes), spectral power lines, instants before t = 0 and scalar instants.')
ASSUMPTIONS = ["numpy.linalg accuracy", "reference closed-form harmonics (validated by C08)", "frequency resolution is the library default 1e-3",
               "harmonics whose inclusion depends on binary rounding of w_max/w0 (0.3 vs 3*0.1) are kept out of the w_max palette"]
EXPLANATION = "direct exploration of frequency_components, TimeDomainSolution and FrequencyDomainSolution against the exact phasor reference of C02"
RES = F(1, 1000)

BASES = {
    "RC": [["resistor", "R1", ["1", "2"], {"R": 2}], ["capacitor", "C1", ["2", "0"], {"C": "1/3"}]],
    "RL": [["resistor", "R1", ["1", "2"], {"R": 3}], ["inductance", "L1", ["2", "0"], {"L": "1/2"}], ["resistor", "R2", ["2", "0"], {"R": 7}]],
    "RLC": [["resistor", "R1", ["1", "2"], {"R": 2}], ["inductance", "L1", ["2", "3"], {"L": 1}], ["capacitor", "C1", ["3", "0"], {"C": "1/5"}], ["conductance", "G1", ["3", "0"], {"G": "1/11"}]],
}
# source alphabet: name -> (params for the voltage flavour); current flavour derived
SOURCES = {
    "dc": ("dc", {"V": "3/2"}),
    "ac1": ("ac", {"V": "5/2", "w": 1, "phi": "a34"}),
    "ac32": ("ac", {"V": -2, "w": "3/2", "phi": "-pi/2"}),
    "ac03l": ("ac", {"V": 1, "w": "3/10", "phi": "a43", "R": 5}),
    "rect": ("periodic", {"wavetype": "rect", "V": 1, "w": "1/2", "phi": "0"}),
    "tri": ("periodic", {"wavetype": "tri", "V": 2, "w": "1/2", "phi": "a34"}),
    "saw01": ("periodic", {"wavetype": "saw", "V": 1, "w": "1/10", "phi": "0"}),
    "rectl": ("periodic", {"wavetype": "rect", "V": -1, "w": "1/2", "phi": "pi/2", "R": 3}),
    # a fundamental above 1 rad/s with a sinusoid just outside the resolution of its third harmonic (distinct lines) ...
    "rect8": ("periodic", {"wavetype": "rect", "V": 1, "w": 8, "phi": "0"}),
    "ac24": ("ac", {"V": 2, "w": "24005/1000", "phi": "a34"}),
    # ... and a sinusoid inside the resolution of the third harmonic of the 0.1 rad/s sawtooth (one merged line)
    "ac03005": ("ac", {"V": -1, "w": "3005/10000", "phi": "0"}),
    # ... and one 0.0006 rad/s below that harmonic: still one merged line, although 0.2994 and 0.3 round to different multiples of the resolution
    "ac02994": ("ac", {"V": "3/2", "w": "2994/10000", "phi": "a34"}),
}
# high-frequency family: two sinusoids 0.05 rad/s apart at 1e4 rad/s (distinct lines: the resolution is absolute, not relative),
# a third one 0.0006 rad/s above the first (merged line, other rounding cell) and a rectangle whose 5th harmonic is 0.002 rad/s below the first
HF_SOURCES = {
    "hf1": ("ac", {"V": 2, "w": 10000, "phi": "a34"}),
    "hf2": ("ac", {"V": "3/2", "w": "200001/20", "phi": "0"}),
    "hf3": ("ac", {"V": -1, "w": "100000006/10000", "phi": "pi/2", "R": 2}),
    "hfrect": ("periodic", {"wavetype": "rect", "V": 1, "w": "19999996/10000", "phi": "0"}),
}
HF_BASE = {"RChf": [["resistor", "R1", ["1", "2"], {"R": 2}], ["capacitor", "C1", ["2", "0"], {"C": "1/20000"}], ["resistor", "R2", ["2", "0"], {"R": 3}]]}
# small-signal family: the same kinds of sources with nanovolt / nanoampere amplitudes (spectral lines of 1e-9 and below are lines)
SMALL_SOURCES = {}
for _n in ("dc", "ac1", "ac32", "rect", "saw01", "rectl"):
    _t, _p = SOURCES[_n]
    SMALL_SOURCES[_n + "_s"] = (_t, dict(_p, V=str(F(_p["V"]) / 10 ** 9)))
SOURCES_ALL = dict(SOURCES, **HF_SOURCES)
SOURCES_ALL.update(SMALL_SOURCES)
BASES_ALL = dict(BASES, **HF_BASE)
WMAX = ["0", "1/20", "1/4", "7/20", "3/2", "19/20", "5"]


def budget_s(tier):
    return 1500 if tier == "quick" else 5400


def source_component(name, flavour, idx, n1, n2):
    typ, p = SOURCES_ALL[name]
    p = dict(p)
    if flavour == "I":
        p["I"] = p.pop("V")
        if "R" in p:
            p["G"] = F(1, F(p.pop("R")))
        kind = {"dc": "dc_current_source", "ac": "ac_current_source", "periodic": "periodic_current_source"}[typ]
    else:
        kind = {"dc": "dc_voltage_source", "ac": "ac_voltage_source", "periodic": "periodic_voltage_source"}[typ]
    return [kind, "%s%d" % ("Vs" if flavour == "V" else "Is", idx), [n1, n2], p]


def build(base, mix, flavour):
    """voltage sources are stacked in series from node 0 up to node 1, current sources in parallel 0 -> 1"""
    comps = []
    if flavour == "V":
        prev = "0"
        for k, name in enumerate(mix):
            nxt = "1" if k == len(mix) - 1 else "s%d" % k
            comps.append(source_component(name, "V", k, nxt, prev))
            prev = nxt
    else:
        for k, name in enumerate(mix):
            comps.append(source_component(name, "I", k, "0", "1"))
        comps.append(["resistor", "Rp", ["1", "0"], {"R": 13}])
    comps += [list(c) for c in BASES_ALL[base]]
    comps.append(["ground", "gnd", ["0"], {}])
    return {"components": comps}


def shards(tier):
    names = list(SOURCES)
    out = []
    sizes = (1, 2, 3) if tier == "quick" else (1, 2, 3, 4)
    for base in BASES:
        for r in sizes:
            for mix in itertools.combinations(names, r):
                if "ac02994" in mix and "ac03005" in mix:
                    continue       # a chain 0.2994 / 0.3 / 0.3005 of pairwise-close frequencies has no defined set of distinct lines
                for fl in ("V", "I"):
                    out.append(("mix%d" % r, (base, mix, fl, tier)))
    for base in BASES:
        for r in (1, 2):
            for mix in itertools.combinations(list(SMALL_SOURCES), r):
                for fl in ("V", "I"):
                    out.append(("small%d" % r, (base, mix, fl, tier)))
    hf = list(HF_SOURCES) + ["dc", "ac1"]
    for r in (2, 3) if tier == "quick" else (2, 3, 4):
        for mix in itertools.combinations(hf, r):
            if sum(m in HF_SOURCES for m in mix) >= 2:
                for fl in ("V", "I"):
                    out.append(("hf%d" % r, ("RChf", mix, fl, tier)))
    return out


def run_shard(desc):
    base, mix, fl, tier = desc
    res = new_result()
    d = build(base, mix, fl)
    wmax = list(WMAX)
    if base == "RChf":
        wmax = ["0", "9999", "10000", "200001/20", "10001", "12000"]
    if ("rect8" in mix or "ac24" in mix) and "saw01" not in mix:
        wmax.append("30")
    for wm in wmax:
        res["evals"] += 1
        judge(d, wm, res, tier)
    return res


def replay(case):
    res = new_result()
    judge(case["circuit"], case["w_max"], res, "quick")
    return res["violations"]


def zeroed_except(d, keep_id):
    out = []
    for c in d["components"]:
        c = [c[0], c[1], list(c[2]), dict(c[3])]
        if c[0].endswith("_source") and c[1] != keep_id:
            k = "V" if "voltage" in c[0] else "I"
            c[3][k] = 0
        out.append(c)
    return {"components": out}


def ref_lines(d, freqs):
    """exact-reference peak phasors: {w: (phi dict, reported current dict, netlist)}"""
    out = {}
    for w in freqs:
        nl = rc.netlist(d, w, RES)
        phi, cur = cm.float_tableau_solution(nl)
        rep = {b[3]: (-cur[b[3]] if rn.reports_generator_direction(b) else cur[b[3]]) for b in nl["branches"]}
        out[w] = (phi, rep, nl)
    return out


def judge(d, wm, res, tier):
    from CircuitCalculator.Circuit.circuit import frequency_components
    from CircuitCalculator.Circuit.solution import TimeDomainSolution, FrequencyDomainSolution, ComplexSolution
    case = {"circuit": d, "w_max": wm}
    w_max = F(wm)
    res["states"] += 1
    try:
        circ = adapt.circuit(d)
    except Exception as e:
        add_violation(res, "frequency_list", case, "circuit", "%s: %s" % (type(e).__name__, e), "cannot build", kind="exception:" + type(e).__name__)
        return
    exp_w = rc.frequencies(d, w_max, RES)
    # ---- frequency list
    bump(res["hits"], "frequency_list")
    res["transitions"] += 1
    try:
        got_w = [float(x) for x in frequency_components(circ, float(w_max))]
    except Exception as e:
        add_violation(res, "frequency_list", case, [str(w) for w in exp_w], "%s: %s" % (type(e).__name__, e), "frequency_components raised", kind="exception:" + type(e).__name__)
        return
    if len(got_w) != len(exp_w) or any(abs(g - float(e)) > float(RES) for g, e in zip(got_w, exp_w)):
        dup = any(b - a <= float(RES) for a, b in zip(got_w[:-1], got_w[1:]))
        add_violation(res, "frequency_list", case, [float(w) for w in exp_w], got_w,
                      "analysed frequencies are not the distinct source frequencies and harmonics, each once",
                      kind="duplicate_within_resolution" if dup and len(got_w) > len(exp_w) else "wrong_value")
        return
    if len(exp_w) >= 2:
        res["nontrivial"] += 1
    lines = ref_lines(d, exp_w)
    ids = [c[1] for c in d["components"] if c[0] != "ground"]
    nl0 = lines[exp_w[0]][2]
    nodes = rn.nodes_of(nl0)
    sc = [cm.scales(lines[w][2], lines[w][0], lines[w][1]) for w in exp_w]
    s_phi = max(x[0] for x in sc)
    s_i = max(x[1] for x in sc)
    rtol = 1e-8
    # ---- spectral lines (one-sided)
    try:
        fds = FrequencyDomainSolution(circuit=circ, w_max=float(w_max))
        res["transitions"] += 1
        bump(res["hits"], "line_is_phasor")
        bad = False
        for nd in nodes:
            w_, X = fds.get_potential(nd)
            if len(w_) != len(exp_w):
                add_violation(res, "line_is_phasor", case, len(exp_w), len(w_), "number of spectral lines")
                bad = True
                break
            for k, w in enumerate(exp_w):
                if abs(complex(X[k]) - lines[w][0][nd]) > rtol * s_phi:
                    add_violation(res, "line_is_phasor", case, lines[w][0][nd], complex(X[k]), "potential line of node %s at w=%s is not the peak phasor" % (nd, w))
                    bad = True
                    break
            if bad:
                break
        if not bad:
            for i in ids:
                w_, Xv = fds.get_voltage(i)
                w_, Xi = fds.get_current(i)
                w_, Xp = fds.get_power(i)
                for k, w in enumerate(exp_w):
                    # the power line at w_k is the complex power of the peak phasors at that frequency
                    if w != 0 and abs(complex(Xp[k]) - 0.5 * complex(Xv[k]) * complex(Xi[k]).conjugate()) > rtol * s_phi * s_i:
                        add_violation(res, "line_is_phasor", case, 0.5 * complex(Xv[k]) * complex(Xi[k]).conjugate(), complex(Xp[k]), "power line of %s at w=%s is not V*conj(I)/2 of its own voltage and current lines" % (i, w))
                        bad = True
                        break
                    b = [x for x in lines[w][2]["branches"] if x[3] == i][0]
                    ev = lines[w][0][b[0]] - lines[w][0][b[1]]
                    if abs(complex(Xv[k]) - ev) > rtol * s_phi or abs(complex(Xi[k]) - lines[w][1][i]) > rtol * s_i:
                        add_violation(res, "line_is_phasor", case, [ev, lines[w][1][i]], [complex(Xv[k]), complex(Xi[k])], "voltage/current line of %s at w=%s is not the peak phasor" % (i, w))
                        bad = True
                        break
                if bad:
                    break
    except Exception as e:
        add_violation(res, "line_is_phasor", case, "spectrum", "%s: %s" % (type(e).__name__, e), "FrequencyDomainSolution raised", kind="exception:" + type(e).__name__)
    # ---- two-sided spectrum
    bump(res["hits"], "two_sided_mirror")
    try:
        two = FrequencyDomainSolution(circuit=circ, w_max=float(w_max), one_sided=False)
        res["transitions"] += 1
        one = FrequencyDomainSolution(circuit=circ, w_max=float(w_max))
        for getter, name, scale in (("get_potential", nodes[-1], s_phi), ("get_voltage", ids[0], s_phi), ("get_current", ids[-1], s_i), ("get_power", ids[0], s_phi * s_i), ("get_power", ids[-1], s_phi * s_i)):
            w2, X2 = getattr(two, getter)(name)
            w1, X1 = getattr(one, getter)(name)
            w2 = [float(x) for x in w2]
            X2 = [complex(x) for x in X2]
            pos = [(w, x) for w, x in zip(w2, X2) if w > 0]
            neg = [(w, x) for w, x in zip(w2, X2) if w < 0]
            exp_pos = [float(w) for w in w1 if w > 0]
            if sorted(w for w, _ in pos) != sorted(exp_pos) or sorted(-w for w, _ in neg) != sorted(exp_pos) or w2 != sorted(w2):
                add_violation(res, "two_sided_mirror", case, sorted([-w for w in exp_pos] + [float(w) for w in w1]), w2, "two-sided frequency axis is not the mirror image of the one-sided axis")
                break
            negd = {-w: x for w, x in neg}
            if any(abs(negd[w] - x.conjugate()) > rtol * scale for w, x in pos):
                add_violation(res, "two_sided_mirror", case, "X(-w) = conj(X(w))", [neg, pos], "line at -w is not the conjugate of the line at +w (%s %s)" % (getter, name))
                break
            one_d = {float(w): complex(x) for w, x in zip(w1, X1)}
            if any(abs(x - one_d[w] / 2) > rtol * scale for w, x in pos):
                add_violation(res, "two_sided_mirror", case, {w: one_d[w] / 2 for w, _ in pos}, pos, "positive-frequency lines are not half the one-sided lines (%s %s)" % (getter, name))
                break
    except Exception as e:
        add_violation(res, "two_sided_mirror", case, "two-sided spectrum", "%s: %s" % (type(e).__name__, e), "two-sided FrequencyDomainSolution raised", kind="exception:" + type(e).__name__)
    # ---- time functions
    w_pos = [w for w in exp_w if w > 0]
    w_fund = min(w_pos) if w_pos else F(1)
    Tspan = 2 * 2 * math.pi / float(w_fund)
    ts = np.linspace(-Tspan / 2, Tspan, 25)      # evaluation times before and after t = 0

    def synth(vals):
        y = np.zeros_like(ts)
        for w, X in vals:
            y = y + abs(X) * np.cos(float(w) * ts + np.angle(X))
        return y
    try:
        tds = TimeDomainSolution(circuit=circ, w_max=float(w_max))
        res["transitions"] += 1
        got = {}
        bump(res["hits"], "time_function_is_sum")
        bad = False
        for nd in nodes:
            y = np.asarray(tds.get_potential(nd)(ts), dtype=float)
            # a single instant given as a plain float is the same function value as in the array
            y1 = tds.get_potential(nd)(float(ts[5]))
            if np.shape(y) != np.shape(ts) or abs(float(np.asarray(y1).reshape(-1)[0]) - y[5]) > 1e-12 * max(s_phi, abs(y[5])):
                add_violation(res, "time_function_is_sum", dict(case, t=float(ts[5])), float(y[5]) if np.shape(y) == np.shape(ts) else list(np.shape(ts)),
                              float(np.asarray(y1).reshape(-1)[0]) if np.shape(y) == np.shape(ts) else list(np.shape(y)), "time function of node %s answers differently for a scalar instant / returns another shape" % nd)
                bad = True
                break
            e = synth([(w, lines[w][0][nd]) for w in exp_w])
            if np.max(np.abs(y - e)) > rtol * s_phi * len(exp_w):
                k = int(np.argmax(np.abs(y - e)))
                add_violation(res, "time_function_is_sum", dict(case, t=float(ts[k])), float(e[k]), float(y[k]), "potential of node %s is not sum |X_k| cos(w_k t + arg X_k)" % nd)
                bad = True
                break
        cur_t = {}
        for i in ids:
            yi = np.asarray(tds.get_current(i)(ts), dtype=float)
            yv = np.asarray(tds.get_voltage(i)(ts), dtype=float)
            cur_t[i] = yi
            got[i] = (yv, yi)
            if bad:
                continue
            ei = synth([(w, lines[w][1][i]) for w in exp_w])
            b = [x for x in nl0["branches"] if x[3] == i][0]
            ev = synth([(w, lines[w][0][b[0]] - lines[w][0][b[1]]) for w in exp_w])
            if np.max(np.abs(yi - ei)) > rtol * s_i * len(exp_w) or np.max(np.abs(yv - ev)) > rtol * s_phi * len(exp_w):
                add_violation(res, "time_function_is_sum", case, [ev.tolist()[:3], ei.tolist()[:3]], [yv.tolist()[:3], yi.tolist()[:3]], "voltage/current of %s is not the sum of its spectral lines" % i)
                bad = True
        res["fps"].add(fp(*[float(v) for v in cur_t[ids[0]][:4]]))
        # KCL at every instant, on the library's own time functions
        bump(res["hits"], "kcl_every_instant")
        gen = {}
        for b in nl0["branches"]:
            flags = [any(rn.reports_generator_direction(x) for x in lines[w][2]["branches"] if x[3] == b[3]) for w in exp_w]
            gen[b[3]] = "all" if all(flags) else ("none" if not any(flags) else "mixed")
        for nd in nodes:
            s = np.zeros_like(ts)
            touching = [b for b in nl0["branches"] if nd in (b[0], b[1])]
            if any(gen[b[3]] == "mixed" for b in touching):
                # a lossy source reports generator direction at its own frequencies and passive direction where it
                # is a short/open: its summed time function has no single sign convention, so it cannot enter KCL
                bump(res["skipped"], "kcl:node_touches_lossy_source_with_mixed_reporting_direction")
                continue
            for b in touching:
                sign = -1.0 if gen[b[3]] == "all" else 1.0
                if b[0] == nd:
                    s = s + sign * cur_t[b[3]]
                if b[1] == nd:
                    s = s - sign * cur_t[b[3]]
            if np.max(np.abs(s)) > rtol * s_i * len(exp_w) * len(ids):
                add_violation(res, "kcl_every_instant", case, 0, float(np.max(np.abs(s))), "time-domain currents do not balance at node %s" % nd)
                break
        # superposition of the sources
        srcs = [c[1] for c in d["components"] if c[0].endswith("_source")]
        if len(srcs) >= 2:
            bump(res["hits"], "superposition_of_sources")
            tot_v = {i: np.zeros_like(ts) for i in ids}
            tot_i = {i: np.zeros_like(ts) for i in ids}
            for s_id in srcs:
                part = TimeDomainSolution(circuit=adapt.circuit(zeroed_except(d, s_id)), w_max=float(w_max))
                res["transitions"] += 1
                for i in ids:
                    tot_v[i] = tot_v[i] + np.asarray(part.get_voltage(i)(ts), dtype=float)
                    tot_i[i] = tot_i[i] + np.asarray(part.get_current(i)(ts), dtype=float)
            for i in ids:
                # a lossy source reports generator direction while active and passive direction once its value is
                # zeroed, so only its voltage takes part in the comparison
                cur_ok = gen.get(i, "none") != "none" or np.max(np.abs(tot_i[i] - got[i][1])) <= rtol * s_i * len(exp_w) * len(srcs)
                if np.max(np.abs(tot_v[i] - got[i][0])) > rtol * s_phi * len(exp_w) * len(srcs) or not cur_ok:
                    add_violation(res, "superposition_of_sources", case, [tot_v[i].tolist()[:3], tot_i[i].tolist()[:3]], [got[i][0].tolist()[:3], got[i][1].tolist()[:3]],
                                  "time functions of %s are not the sum of the single-source time functions" % i)
                    break
        # reconstruction of an ideal periodic voltage source's own waveform
        for c in d["components"]:
            if c[0] == "periodic_voltage_source" and F(c[3].get("R", 0)) == 0:
                w0 = F(c[3]["w"])
                N = int(w_max / w0)
                if N < 1:
                    bump(res["skipped"], "reconstruction:no_ac_harmonic_retained")
                    continue
                bump(res["hits"], "waveform_reconstruction")
                T = 2 * math.pi / float(w0)
                A = rc.fl(c[3]["V"])
                from . import c08
                bps = c08.breakpoints(c[3]["wavetype"], T, rc.phase_float(c[3].get("phi", "0")))
                tq, wq = c08.quad_nodes(T, bps, panels=32)
                own = np.asarray(tds.get_voltage(c[1])(tq), dtype=float)
                # the other sources stacked in series do not change the voltage across an ideal source
                wave = c08.ref_wave(c[3]["wavetype"], A, T, rc.phase_float(c[3].get("phi", "0")), 0.0, tq)
                mse = float((wq * (own - wave) ** 2).sum() / T)
                bound = (4 * abs(A)) ** 2 / (2 * math.pi ** 2 * N)
                if mse > bound * (1 + 1e-6) + 1e-12:
                    add_violation(res, "waveform_reconstruction", dict(case, source=c[1]), "mse <= %r" % bound, mse, "retained harmonics do not reproduce the source's own waveform within the truncation bound")
    except Exception as e:
        add_violation(res, "time_function_is_sum", case, "time-domain solution", "%s: %s" % (type(e).__name__, e), "TimeDomainSolution raised", kind="exception:" + type(e).__name__)
    if len(res["samples"]) < 1 and len(exp_w) > 2:
        res["samples"].append({"circuit": d, "w_max": wm, "frequencies": [str(w) for w in exp_w]})


def vacuity(agg, tier):
    out = []
    for k in ("frequency_list", "line_is_phasor", "two_sided_mirror", "time_function_is_sum", "kcl_every_instant", "superposition_of_sources", "waveform_reconstruction"):
        if agg["hits"].get(k, 0) == 0:
            out.append("sub-check %s never fired" % k)
    return out
