"""C08 - Fourier series of the built-in periodic waveforms are the true coefficients (shape S)."""
import itertools
import math
import numpy as np

from mc.runner import new_result, bump, fp, add_violation

ID = "C08"
LEVEL = "model_checking"
RULE = ("every wave type x amplitude palette (either sign) x phase palette (several turns) x offset palette x period "
        "palette; for each configuration every harmonic order 0..N (N=64 quick, 400 thorough); the library's closed-form "
        "amplitude/phase are compared with composite Gauss-Legendre quadrature (128 panels x 16 nodes, split at the "
        "waveform's breakpoints) of the library's own time function; states = distinct configurations, transitions = "
        "(configuration, harmonic) pairs judged; non-trivial = configuration with a non-zero AC harmonic")
ASSUMPTIONS = ["Gauss-Legendre quadrature error < 1e-12 for n <= 400 (panels resolve the integrand; validated on the pristine tree: 6e-14)",
               "continuous parameters represented by the palettes"]
EXPLANATION = "direct evaluation of the real coefficient classes and the real time functions"

WAVES = ["const", "cos", "sin", "rect", "tri", "saw"]
AMPS = [1.0, -2.0, 2.5, 1e-3, 2e-9, -4e7]
PHASES = [0.0, math.pi / 3, -math.pi / 3, math.pi / 2, math.pi, 2 * math.pi + 0.3, -7.5, 40 * math.pi + 1]
OFFSETS = [0.0, 1.0, -1.5]
PERIODS = [1.0, 2 * math.pi, 1e-3, 50.0]
_GL = np.polynomial.legendre.leggauss(16)


def budget_s(tier):
    return 600 if tier == "quick" else 1800


def shards(tier):
    out = []
    for wt in WAVES:
        for a in AMPS:
            for T in PERIODS:
                out.append(("wave:" + wt, (wt, a, T, 128 if tier == "quick" else 400)))
    out.append(("lookup", ("lookup",)))
    return out


def run_shard(desc):
    res = new_result()
    if desc[0] == "lookup":
        lookup(res)
        return res
    wt, a, T, N = desc
    for ph in PHASES:
        for off in OFFSETS:
            res["evals"] += 1
            judge({"wavetype": wt, "amplitude": a, "phase": ph, "offset": off, "period": T, "N": N}, res)
    return res


def replay(case):
    res = new_result()
    if case.get("lookup") or case.get("lookup_sequence"):
        lookup(res)
    else:
        judge(case, res)
    return res["violations"]


def lookup(res):
    from CircuitCalculator.SignalProcessing import periodic_functions as pf
    res["evals"] += 1
    res["states"] += 1
    for wt in WAVES:
        res["transitions"] += 1
        bump(res["hits"], "lookup_by_name")
        try:
            cls = pf.periodic_function(wt)
            inst = cls(period=1.0, amplitude=1.0, phase=0.0, offset=0.0)
            if inst.wavetype != wt or cls.wavetype != wt:
                add_violation(res, "lookup_by_name", {"lookup": wt}, wt, inst.wavetype, "lookup by type name returns another waveform")
            pf.fourier_series(inst)
        except Exception as e:
            add_violation(res, "lookup_by_name", {"lookup": wt}, wt, "%s: %s" % (type(e).__name__, e), "lookup raised", kind="exception:" + type(e).__name__)
    # every sequence: a lookup of a name that does not exist (refused), then every name again - also after every other name
    # (a failed or an earlier lookup must not change what a name denotes)
    for bad in ("square", "", "Rect", "sine", "saw "):
        for first in WAVES:
            res["transitions"] += 1
            bump(res["hits"], "lookup_by_name")
            case = {"lookup_sequence": [first, bad, "every name"]}
            try:
                pf.periodic_function(first)
                try:
                    got = pf.periodic_function(bad)
                    add_violation(res, "lookup_by_name", case, "an exception", repr(got), "lookup of an unknown type name returned a waveform")
                except Exception:
                    pass
                for wt in WAVES:
                    cls = pf.periodic_function(wt)
                    if cls.wavetype != wt or cls(period=1.0, amplitude=1.0, phase=0.0, offset=0.0).wavetype != wt:
                        add_violation(res, "lookup_by_name", dict(case, name=wt), wt, cls.wavetype, "after a refused lookup the type name denotes another waveform")
                        break
            except Exception as e:
                add_violation(res, "lookup_by_name", case, "lookups", "%s: %s" % (type(e).__name__, e), "lookup sequence raised", kind="exception:" + type(e).__name__)
    res["nontrivial"] += 2
    res["fps"].add(1)
    res["fps"].add(2)


def breakpoints(wt, T, ph):
    if wt in ("const", "cos", "sin"):
        return []
    t0 = ph / 2 / math.pi * T
    b0 = (-t0) % T
    if wt == "saw":
        return [b0]
    return sorted([b0, (b0 + T / 2) % T])


def ref_wave(wt, a, T, ph, off, t):
    """boring reference waveform (vectorised)"""
    th = np.mod(2 * np.pi / T * t + ph, 2 * np.pi)
    if wt == "const":
        return a * np.ones_like(t)
    if wt == "cos":
        return a * np.cos(2 * np.pi / T * t + ph) + off
    if wt == "sin":
        return a * np.sin(2 * np.pi / T * t + ph) + off
    if wt == "rect":
        return np.where(th < np.pi, a, -a) + off
    if wt == "tri":
        return np.where(th < np.pi, a * (1 - 2 * th / np.pi), a * (-3 + 2 * th / np.pi)) + off
    if wt == "saw":
        return a * (th / np.pi - 1) + off
    raise ValueError(wt)


def quad_nodes(T, bps, panels=128):
    edges = sorted(set([0.0, T] + [b for b in bps if 0 < b < T]))
    ts, ws = [], []
    for lo, hi in zip(edges[:-1], edges[1:]):
        k = max(1, int(math.ceil(panels * (hi - lo) / T)))
        pe = np.linspace(lo, hi, k + 1)
        half = (pe[1:] - pe[:-1]) / 2
        mid = (pe[1:] + pe[:-1]) / 2
        ts.append((mid[:, None] + half[:, None] * _GL[0][None, :]).ravel())
        ws.append((half[:, None] * _GL[1][None, :]).ravel())
    return np.concatenate(ts), np.concatenate(ws)


def judge(c, res):
    from CircuitCalculator.SignalProcessing import periodic_functions as pf
    wt, a, ph, off, T, N = c["wavetype"], c["amplitude"], c["phase"], c["offset"], c["period"], c["N"]
    case = dict(c)
    res["states"] += 1
    try:
        wave = pf.periodic_function(wt)(period=T, amplitude=a, phase=ph, offset=off)
        fs = pf.fourier_series(wave)
        tf = wave.time_function
    except Exception as e:
        add_violation(res, "coeff_matches_integral", case, "series", "%s: %s" % (type(e).__name__, e), "construction raised", kind="exception:" + type(e).__name__)
        return
    scale = abs(a) + abs(off)
    tol = 1e-9 * scale
    bps = breakpoints(wt, T, ph)
    t, w = quad_nodes(T, bps)
    f = np.asarray(tf(t), dtype=float)
    ns = np.arange(0, N + 1)
    w0 = 2 * math.pi / T
    arg = np.outer(ns, w0 * t)
    a_true = 2 / T * (np.cos(arg) @ (w * f))
    b_true = 2 / T * (np.sin(arg) @ (w * f))
    a_true[0] = a_true[0] / 2      # mean value
    msq = float((w * f * f).sum() / T)
    energy = 0.0
    nontrivial = False
    for n in range(0, N + 1):
        res["transitions"] += 1
        try:
            amp, phs = float(fs.amplitude(n)), float(fs.phase(n))
            an, bn = float(fs.a(n)), float(fs.b(n))
            cn, cmn = complex(fs.c(n)), complex(fs.c(-n))
        except Exception as e:
            add_violation(res, "coeff_matches_integral", dict(case, n=n), "coefficients", "%s: %s" % (type(e).__name__, e), "coefficient raised", kind="exception:" + type(e).__name__)
            return
        if n >= 1 and abs(amp) > 1e-6 * scale:
            nontrivial = True
        bump(res["hits"], "coeff_matches_integral" if n else "dc_term")
        ea, eb = amp * math.cos(phs), -amp * math.sin(phs)
        if abs(ea - a_true[n]) > tol or (n > 0 and abs(eb - b_true[n]) > tol):
            add_violation(res, "coeff_matches_integral" if n else "dc_term", dict(case, n=n), [float(a_true[n]), float(b_true[n])], [ea, eb],
                          "amplitude(n)cos(phase(n)), -amplitude(n)sin(phase(n)) differ from the Fourier integrals of the time function at n=%d" % n)
            return
        if n >= 1:
            bump(res["hits"], "abc_consistency")
            if abs(an - ea) > tol or abs(bn - eb) > tol or abs(cn - (ea - 1j * eb) / 2) > tol:
                add_violation(res, "abc_consistency", dict(case, n=n), [ea, eb, (ea - 1j * eb) / 2], [an, bn, cn], "a/b/c forms inconsistent with amplitude/phase at n=%d" % n)
                return
            bump(res["hits"], "conjugate_symmetry")
            if abs(cmn - cn.conjugate()) > tol:
                add_violation(res, "conjugate_symmetry", dict(case, n=n), cn.conjugate(), cmn, "c(-n) != conj(c(n)) at n=%d" % n)
                return
            energy += amp * amp / 2
        else:
            energy += ea * ea
        if n <= 3:
            res["fps"].add(fp(amp, phs % (2 * math.pi)))
    # Bessel / Parseval with the total-variation tail bound
    bump(res["hits"], "bessel_parseval")
    var = 0.0 if wt == "const" else 4 * abs(a)
    slack = 1e-9 * max(msq, scale * scale)
    if energy > msq + slack:
        add_violation(res, "bessel_parseval", case, "<= %r" % msq, energy, "partial energy exceeds the mean square (Bessel)")
    elif msq - energy > var * var / (2 * math.pi ** 2 * N) + slack:
        add_violation(res, "bessel_parseval", case, "deficit <= %r" % (var * var / (2 * math.pi ** 2 * N)), msq - energy, "energy of the retained harmonics misses Parseval's identity by more than the tail bound")
    # pointwise agreement of the time function with the reference waveform
    bump(res["hits"], "time_function_pointwise")
    grid = [np.linspace(-1.3 * T, 2.1 * T, 173)]
    for b in bps:
        for k in (-1, 0, 1, 2):
            grid.append(np.array([b + k * T - 1e-6 * T, b + k * T + 1e-6 * T]))
    tg = np.concatenate(grid)
    got = np.asarray(tf(tg), dtype=float)
    exp = ref_wave(wt, a, T, ph, off, tg)
    # near a jump the two implementations may round the breakpoint differently: exclude |dt| < 1e-9 T (none in the grid)
    bad = np.where(np.abs(got - exp) > 1e-6 * scale + 1e-9 * scale)[0]
    if len(bad):
        k = int(bad[0])
        add_violation(res, "time_function_pointwise", dict(case, t=float(tg[k])), float(exp[k]), float(got[k]), "time function differs from the reference waveform")
    # the same object after its fields were reassigned (waveforms are plain mutable dataclasses): its time function and
    # its series must both be those of the new field values -- a value computed before the assignment must not survive
    bump(res["hits"], "reassigned_fields")
    ph2, T2 = ph + 0.75, 1.5 * T
    try:
        wave.phase = ph2
        wave.period = T2
        tf2 = wave.time_function
        fs2 = pf.fourier_series(wave)
        fresh = pf.fourier_series(pf.periodic_function(wt)(period=T2, amplitude=a, phase=ph2, offset=off))
        tg2 = np.linspace(-0.7 * T2, 1.9 * T2, 131)
        bp2 = breakpoints(wt, T2, ph2)
        if bp2:
            dist = np.min(np.abs(((tg2[:, None] - np.asarray(bp2)[None, :] + T2 / 2) % T2) - T2 / 2), axis=1)
            tg2 = tg2[dist > 1e-6 * T2]
        got2 = np.asarray(tf2(tg2), dtype=float)
        exp2 = ref_wave(wt, a, T2, ph2, off, tg2)
        bad2 = np.where(np.abs(got2 - exp2) > 1e-6 * scale + 1e-9 * scale)[0]
        if len(bad2):
            k = int(bad2[0])
            add_violation(res, "reassigned_fields", dict(case, phase2=ph2, period2=T2, t=float(tg2[k])), float(exp2[k]), float(got2[k]),
                          "after assigning phase and period, the time function is not that of the new values")
        for n in (0, 1, 2, 3):
            g = (float(fs2.amplitude(n)), float(fs2.phase(n)))
            e = (float(fresh.amplitude(n)), float(fresh.phase(n)))
            if abs(g[0] * np.exp(1j * g[1]) - e[0] * np.exp(1j * e[1])) > tol:
                add_violation(res, "reassigned_fields", dict(case, phase2=ph2, period2=T2, n=n), list(e), list(g),
                              "after assigning phase and period, the series differs from that of a fresh waveform with the new values")
                break
    except Exception as e:
        add_violation(res, "reassigned_fields", dict(case, phase2=ph2, period2=T2), "time function and series", "%s: %s" % (type(e).__name__, e),
                      "reassigning phase/period raised", kind="exception:" + type(e).__name__)
    if nontrivial:
        res["nontrivial"] += 1
    if len(res["samples"]) < 1:
        res["samples"].append({"config": c, "amplitude(1)": float(fs.amplitude(1)), "phase(1)": float(fs.phase(1))})


def vacuity(agg, tier):
    out = []
    for k in ("coeff_matches_integral", "dc_term", "abc_consistency", "conjugate_symmetry", "bessel_parseval", "lookup_by_name", "time_function_pointwise", "reassigned_fields"):
        if agg["hits"].get(k, 0) == 0:
            out.append("sub-check %s never fired" % k)
    return out
