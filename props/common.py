"""Shared pieces for the network-level properties (C01, C03, C04, C05, C06, C16)."""
import itertools
import numpy as np

from mc import space as sp
from mc.ref import netlist as rn
from mc import exact as ex

KINDS7 = ("Z", "V", "I", "LV", "Y", "LI", "load")
KINDS4 = ("Z", "V", "I", "LV")
KINDS3 = ("Z", "V", "I")


def build_netlist(topo, kinds, orient, ref_idx, labels, palette, ids):
    """topo: tuple of (i,j); kinds: tuple; orient: bitmask (bit k set = branch k listed j->i);
    labels: tuple of node names; palette: name; ids: list of branch ids by position."""
    pv, ps = sp.PALETTES[palette]
    br = []
    for k, ((i, j), kind) in enumerate(zip(topo, kinds)):
        a, b_ = (labels[j], labels[i]) if (orient >> k) & 1 else (labels[i], labels[j])
        if kind in ("Z", "Y"):
            p = [pv[k]]
        elif kind == "load":
            p = [pv[k] if not isinstance(pv[k], list) else pv[k][0], 3]
        elif kind == "V" or kind == "I":
            p = [ps[k % len(ps)]]
        elif kind in ("LV", "LI"):
            p = [ps[k % len(ps)], pv[k]]
        else:
            p = []
        br.append([a, b_, kind, ids[k], p])
    return {"ref": labels[ref_idx], "branches": br}


_WP_CACHE = {}


def class_well_posed(topo, kinds, palette):
    """Exact well-posedness of the (topology, kinds, palette) class; invariant under
    orientation, reference node, labels, ids (DESIGN 2.3c)."""
    key = (topo, kinds, palette)
    r = _WP_CACHE.get(key)
    if r is None:
        n = 1 + max(max(p) for p in topo)
        nl = build_netlist(topo, kinds, 0, 0, sp.LABELS_PLAIN[:n], palette, sp.IDS_ASC[:len(topo)])
        r = rn.well_posed(nl)
        if len(_WP_CACHE) > 200000:
            _WP_CACHE.clear()
        _WP_CACHE[key] = r
    return r


def tableau_condition(nl):
    """2-norm condition number of the row-equilibrated tableau (how well the circuit determines its own solution in binary64)"""
    M, rhs, nidx, nb = rn.tableau(nl)
    A = np.array([[complex(x) for x in row] for row in M], dtype=complex)
    if A.shape[0] == 0:
        return 1.0
    rs = np.abs(A).max(axis=1)
    rs[rs == 0] = 1.0
    return float(np.linalg.cond(A / rs[:, None]))


def float_tableau_solution(nl):
    """Independent float reference (sparse tableau solved with numpy)."""
    M, rhs, nidx, nb = rn.tableau(nl)
    A = np.array([[complex(x) for x in row] for row in M], dtype=complex)
    b = np.array([complex(x) for x in rhs], dtype=complex)
    # the rows carry different units (volts, amperes, dimensionless): equilibrate them before solving
    rs = np.abs(A).max(axis=1)
    rs[rs == 0] = 1.0
    x = np.linalg.solve(A / rs[:, None], b / rs)
    nn = len(nidx)
    phi = {n: x[k] for n, k in nidx.items()}
    phi[nl["ref"]] = 0j
    cur = {}
    for k, br in enumerate(nl["branches"]):
        cur[br[3]] = x[nn + k]
    return phi, cur


def scales(nl, phi, cur):
    s_phi, s_i = rn.source_scale(nl)
    s_phi = max([s_phi] + [abs(v) for v in phi.values()])
    s_i = max([s_i] + [abs(v) for v in cur.values()])
    return s_phi, s_i


def rtol_for(palette):
    return 1e-6 if palette in ("dec", "wide") else 1e-9


def id_schemes(b, full):
    base = sp.IDS_ASC[:b]
    if full:
        return [list(p) for p in itertools.permutations(base)]
    if b == 1:
        return [base]
    return [base, list(reversed(base))]


# ------------------------------------------------------------------ structured larger families (DESIGN section 3)
def _val(kind, k, palette):
    pv, ps = sp.PALETTES[palette]
    v = pv[k % len(pv)]
    sv = ps[k % len(ps)]
    if kind in ("Z", "Y"):
        return [v]
    if kind == "load":
        return [v if not isinstance(v, list) else v[0], 3]
    if kind in ("V", "I"):
        return [sv]
    if kind in ("LV", "LI"):
        return [sv, v]
    return []


def structured_netlists(tier):
    """yield (family name, netlist without reference) for ladders (2..8 sections), rings (3..8 elements, every source
    position) and complete graphs K3..K5 with one source branch, over a short list of kind patterns"""
    ladders = [("V", "Z", "Y"), ("I", "Y", "Z"), ("LV", "Z", "load"), ("LI", "Z", "Z"), ("V", "Y", "Y")]
    rings = [("V", "Z"), ("LV", "Y"), ("I", "Z"), ("LI", "load")]
    max_sec = 8 if tier == "thorough" else 6
    for src, ser, shu in ladders:
        for nsec in range(2, max_sec + 1):
            br = [["n1", "n0", src, "S", None]]
            for k in range(nsec):
                br.append(["n%d" % (k + 1), "n%d" % (k + 2), ser, "a%02d" % k, None])
                br.append(["n%d" % (k + 2), "n0", shu, "b%02d" % k, None])
            yield "ladder", br
    for src, el in rings:
        for n in range(3, (8 if tier == "thorough" else 6) + 1):
            for pos in range(n):
                br = []
                for k in range(n):
                    kind = src if k == pos else el
                    if src == "I" and k == (pos + 1) % n:
                        kind = "Z"
                    br.append(["n%d" % k, "n%d" % ((k + 1) % n), kind, "e%02d" % k, None])
                if src in ("I", "LI"):
                    # a current source in a pure series ring needs a return path across it
                    br.append(["n%d" % pos, "n%d" % ((pos + 1) % n), "Y", "par", None])
                yield "ring", br
    for n in (3, 4, 5):
        pairs = [(i, j) for i in range(n) for j in range(i + 1, n)]
        for spos in range(len(pairs)):
            for src in ("V", "LV", "I"):
                br = []
                for k, (i, j) in enumerate(pairs):
                    kind = src if k == spos else ("Z" if (k % 2 == 0) else "Y")
                    br.append(["n%d" % i, "n%d" % j, kind, "k%02d" % k, None])
                yield "complete", br


def instantiate(br, palette, labels, ids_desc, flip_mask):
    """fill values, rename nodes n<k> -> labels[k], optionally reverse ids and flip orientation of the branches in flip_mask"""
    out = []
    names = [b[3] for b in br]
    if ids_desc:
        ren = dict(zip(sorted(names), sorted(names, reverse=True)))
    else:
        ren = {n: n for n in names}
    for k, b in enumerate(br):
        n1, n2 = labels[int(b[0][1:])], labels[int(b[1][1:])]
        p = _val(b[2], k, palette)
        if (flip_mask >> (k % 16)) & 1:
            n1, n2 = n2, n1
        out.append([n1, n2, b[2], ren[b[3]], p])
    return out
