"""Shared pieces for the network-level properties (C01, C03, C04, C05, C06, C16)."""
import itertools
import numpy as np

from mc import space as sp
from mc.ref import netlist as rn
from mc import exact as ex

KINDS7 = ("Z", "V", "I", "LV", "Y", "LI", "load")
KINDS4 = ("Z", "V", "I", "LV")
KINDS3 = ("Z", "V", "I")


def build_netlist(topo, kinds, orient, ref_idx, labels, palette, ids):
    """topo: tuple of (i,j); kinds: tuple; orient: bitmask (bit k set = branch k listed j->i);
    labels: tuple of node names; palette: name; ids: list of branch ids by position."""
    pv, ps = sp.PALETTES[palette]
    br = []
    for k, ((i, j), kind) in enumerate(zip(topo, kinds)):
        a, b_ = (labels[j], labels[i]) if (orient >> k) & 1 else (labels[i], labels[j])
        if kind in ("Z", "Y"):
            p = [pv[k]]
        elif kind == "load":
            p = [pv[k] if not isinstance(pv[k], list) else pv[k][0], 3]
        elif kind == "V" or kind == "I":
            p = [ps[k % len(ps)]]
        elif kind in ("LV", "LI"):
            p = [ps[k % len(ps)], pv[k]]
        else:
            p = []
        br.append([a, b_, kind, ids[k], p])
    return {"ref": labels[ref_idx], "branches": br}


_WP_CACHE = {}


def class_well_posed(topo, kinds, palette):
    """Exact well-posedness of the (topology, kinds, palette) class; invariant under
    orientation, reference node, labels, ids (DESIGN 2.3c)."""
    key = (topo, kinds, palette)
    r = _WP_CACHE.get(key)
    if r is None:
        n = 1 + max(max(p) for p in topo)
        nl = build_netlist(topo, kinds, 0, 0, sp.LABELS_PLAIN[:n], palette, sp.IDS_ASC[:len(topo)])
        r = rn.well_posed(nl)
        if len(_WP_CACHE) > 200000:
            _WP_CACHE.clear()
        _WP_CACHE[key] = r
    return r


def float_tableau_solution(nl):
    """Independent float reference (sparse tableau solved with numpy)."""
    M, rhs, nidx, nb = rn.tableau(nl)
    A = np.array([[complex(x) for x in row] for row in M], dtype=complex)
    b = np.array([complex(x) for x in rhs], dtype=complex)
    x = np.linalg.solve(A, b)
    nn = len(nidx)
    phi = {n: x[k] for n, k in nidx.items()}
    phi[nl["ref"]] = 0j
    cur = {}
    for k, br in enumerate(nl["branches"]):
        cur[br[3]] = x[nn + k]
    return phi, cur


def scales(nl, phi, cur):
    s_phi, s_i = rn.source_scale(nl)
    s_phi = max([s_phi] + [abs(v) for v in phi.values()])
    s_i = max([s_i] + [abs(v) for v in cur.values()])
    return s_phi, s_i


def rtol_for(palette):
    return 1e-6 if palette == "dec" else 1e-9


def id_schemes(b, full):
    base = sp.IDS_ASC[:b]
    if full:
        return [list(p) for p in itertools.permutations(base)]
    if b == 1:
        return [base]
    return [base, list(reversed(base))]
