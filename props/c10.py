"""C10 - the state-space model is an exact realisation of the circuit (shape S)."""
import itertools
from fractions import Fraction as F
import numpy as np

from mc import space as sp
from mc import adapt
from mc.ref import netlist as rn
from mc.ref import circuit as rc
from mc.ref import dynamics as rd
from mc.runner import new_result, bump, fp, add_violation
from . import dyn

ID = "C10"
LEVEL = "model_checking"
RULE = ("every connected labelled multigraph topology of the listed levels x kind assignment over {R,C,L,ideal V,ideal I} "
        "with 1..3 reactive elements and 1..2 sources (plus, at the 5-branch levels, the family with exactly one source and two reactive elements of the same kind) x orientation x id scheme (ascending, descending and interleaved names, "
        "so that listing order and alphabetical order of sources, inductors and capacitors disagree in every way; all id "
        "permutations at the small levels) with the ground rotating over the nodes; judged when the characteristic polynomial "
        "(exact, per class; ladders of 1..3 (thorough 4) sections over six source/series/shunt patterns with up to 6 (8) states are added and identified at 16 frequencies) has full degree and no root at 0; for each circuit every source column and every output "
        "(all node potentials, all element voltages, all element currents, all states) is compared at 10 frequencies with the "
        "phasor response to that source alone; states = distinct circuits judged, transitions = (circuit, frequency, source) "
        "transfer-function evaluations; non-trivial = circuit whose transfer function is not identically zero"
        ' Additions: output selections of the circuit-level wrapper (unequal lengths, reversed, empty); every second id scheme uses node names that are element ids.')
ASSUMPTIONS = ["numpy.linalg accuracy on the palettes", "10 frequency points exceed 2n+2 for n <= 3 states, which identifies the rational functions",
               "the ground placement rotates with the enumeration index instead of forming a full product"]
EXPLANATION = "direct exploration of nodal_state_space_model and Circuit.state_space_model against the exact pencil reference"


def budget_s(tier):
    return 1200 if tier == "quick" else 7200


# (nodes, branches, id mode, kind filter, orientation mode)
# (2, 4): four parallel branches - the smallest non-degenerate circuits with two current sources (or two voltage-source-like
# elements) next to a reactive element and a resistor
LEVELS_QUICK = [(2, 2, "perm", "admissible", "all"), (2, 3, "perm", "admissible", "all"), (2, 4, "three", "admissible", "all"), (3, 3, "perm", "admissible", "all"), (3, 4, "three", "admissible", "all"),
                (3, 5, "three", "twin", "two"), (4, 5, "two", "twin", "two")]
LEVELS_THOROUGH = [(2, 2, "perm", "admissible", "all"), (2, 3, "perm", "admissible", "all"), (2, 4, "perm", "admissible", "all"), (3, 3, "perm", "admissible", "all"), (3, 4, "perm", "admissible", "all"),
                   (3, 5, "perm", "twin", "all"), (4, 4, "three", "admissible", "all"), (4, 5, "three", "twin", "all"), (4, 5, "two", "admissible", "two")]


def id_lists(b, mode):
    if mode == "perm":
        base = dyn.ID_SCHEMES["asc"][:b]
        return [list(p) for p in itertools.permutations(base)]
    if mode == "three":
        return [dyn.ID_SCHEMES[k][:b] for k in ("asc", "desc", "mix")]
    return [dyn.ID_SCHEMES[k][:b] for k in ("desc", "mix")]


def shards(tier):
    out = []
    for (n, b, mode, filt, om) in (LEVELS_QUICK if tier == "quick" else LEVELS_THOROUGH):
        topos = sp.topologies(n, b)
        allk = dyn.kind_tuples(b, filt)
        per = max(1, 200 // (len(dyn.orientations(b, om)) * len(id_lists(b, mode))))
        for ti in range(len(topos)):
            for ch in sp.chunks(range(len(allk)), per):
                out.append(("RLC(%d,%d)|ids:%s|kinds:%s|orient:%s" % (n, b, mode, filt, om), (n, b, ti, ch[0], ch[-1] + 1, mode, filt, om)))
    for (n, b) in [(2, 2), (2, 3), (3, 3), (3, 4)]:
        topos = sp.topologies(n, b)
        allk = dyn.kind_tuples(b)
        for ti in range(len(topos)):
            for ch in sp.chunks(range(len(allk)), 12):
                out.append(("physical-unit palette RLC(%d,%d)" % (n, b), ("phys", n, b, ti, ch[0], ch[-1] + 1)))
    for li in range(len(dyn.LADDERS)):
        for nsec in range(1, (4 if tier == "thorough" else 3) + 1):
            out.append(("ladders (up to %d sections, %d states)" % ((4, 8) if tier == "thorough" else (3, 6)), ("lad", li, nsec)))
    return out


def run_shard(desc):
    res = new_result()
    if desc[0] == "phys":
        _, n, b, ti, k0, k1 = desc
        topo = sp.topologies(n, b)[ti]
        for kt in dyn.kind_tuples(b)[k0:k1]:
            ok, why = dyn.class_non_degenerate(topo, kt, "phys")
            res["evals"] += 6
            if not ok:
                bump(res["skipped"], why, 6)
                continue
            for orient in dyn.orientations(b, "two"):
                for ii, scheme in enumerate(("asc", "desc", "mix")):
                    d = dyn.build(topo, kt, orient, dyn.ID_SCHEMES[scheme][:b], (orient + ii) % n, pal="phys")
                    judge(d, res, wpal="poles")
        return res
    if desc[0] == "lad":
        src, ser, shu = dyn.LADDERS[desc[1]]
        for scheme in ("asc", "desc", "mix"):
            for flip in (False, True):
                for g in range(desc[2] + 2):
                    d = dyn.ladder(src, ser, shu, desc[2], scheme, flip, g)
                    res["evals"] += 1
                    ok, why = rd.non_degenerate(d)
                    if not ok:
                        bump(res["skipped"], why)
                        continue
                    judge(d, res, wpal=dyn.W_PALETTE_LONG)
        return res
    n, b, ti, k0, k1, mode, filt, om = desc
    topo = sp.topologies(n, b)[ti]
    allk = dyn.kind_tuples(b, filt)
    idl = id_lists(b, mode)
    orients = dyn.orientations(b, om)
    for kt in allk[k0:k1]:
        nvar = len(orients) * len(idl)
        res["evals"] += nvar
        ok, why = dyn.class_non_degenerate(topo, kt)
        if not ok:
            bump(res["skipped"], why, nvar)
            continue
        for orient in orients:
            for ii, ids in enumerate(idl):
                d = dyn.build(topo, kt, orient, ids, (orient + ii) % n, labels=dyn.labels_for(orient, ii, n))
                judge(d, res)
    return res


def replay(case):
    res = new_result()
    judge(case["circuit"], res)
    return res["violations"]


def tf(A, B, C, D, w):
    n = A.shape[0]
    X = np.linalg.solve(1j * w * np.eye(n) - A, B.astype(complex))
    return C @ X + D, X


def judge(d, res, wpal=None):
    from CircuitCalculator.Circuit.state_space_model import state_space_model
    from CircuitCalculator.Circuit.solution import DCSolution
    case = {"circuit": d}
    res["states"] += 1
    caps, inds = rd.reactive(d)
    srcs = rd.sources(d)
    comps = [c for c in d["components"] if c[0] != "ground"]
    ids = [c[1] for c in comps]
    nodes = sorted({n for c in comps for n in c[2]})
    try:
        circ, ssm = dyn.library_models(d)
        full = state_space_model(circ, potential_nodes=nodes, voltage_ids=ids, current_ids=ids)
        pub = list(ssm.sources)
    except Exception as e:
        add_violation(res, "tf_equals_phasor", case, "a model", "%s: %s" % (type(e).__name__, e), "model construction raised", kind="exception:" + type(e).__name__)
        return
    bump(res["hits"], "state_dimension")
    n = len(caps) + len(inds)
    if ssm.A.shape != (n, n) or full.A.shape != (n, n) or ssm.n_states != n:
        add_violation(res, "state_dimension", case, n, list(ssm.A.shape), "state dimension is not #capacitors + #inductors")
        return
    bump(res["hits"], "input_order_is_sources")
    if sorted(pub) != sorted(c[1] for c in srcs) or ssm.B.shape[1] != len(srcs) or full.B.shape[1] != len(srcs):
        add_violation(res, "input_order_is_sources", case, sorted(c[1] for c in srcs), pub, "published source list is not the circuit's sources")
        return
    A, B, C, D = [np.asarray(m, dtype=float) for m in (full.A, full.B, full.C, full.D)]
    if not (np.all(np.isfinite(A)) and np.all(np.isfinite(B)) and np.all(np.isfinite(C)) and np.all(np.isfinite(D))):
        add_violation(res, "tf_equals_phasor", case, "finite matrices", "nan/inf", "model contains non-finite entries")
        return
    # the wrapper's output lists are free: any selection, order and unequal lengths give the corresponding rows of the full model
    bump(res["hits"], "output_selection")
    rowof = {("p", nd): k for k, nd in enumerate(nodes)}
    rowof.update({("v", i): len(nodes) + k for k, i in enumerate(ids)})
    rowof.update({("i", i): len(nodes) + len(ids) + k for k, i in enumerate(ids)})
    for sel in ((nodes, ids, ids[:1]), (nodes[:1], ids[:1], ids[::-1]), ([], ids[::-1], []), (nodes[::-1], [], ids[1:]), ([], ids[-1:], ids[:-1])):
        try:
            part = state_space_model(circ, potential_nodes=list(sel[0]), voltage_ids=list(sel[1]), current_ids=list(sel[2]))
            want = [rowof[("p", x)] for x in sel[0]] + [rowof[("v", x)] for x in sel[1]] + [rowof[("i", x)] for x in sel[2]]
            Cp, Dp = np.asarray(part.C, float), np.asarray(part.D, float)
            if Cp.shape != (len(want), A.shape[0]) or Dp.shape != (len(want), B.shape[1]) or \
                    (len(want) and (np.abs(Cp - C[want]).max() > 1e-12 * max(1.0, np.abs(C).max()) or np.abs(Dp - D[want]).max() > 1e-12 * max(1.0, np.abs(D).max()))):
                add_violation(res, "tf_equals_phasor", dict(case, outputs=[list(x) for x in sel]), "rows %s of the model with all outputs" % want, [list(Cp.shape), list(Dp.shape)],
                              "output rows for a selection of potentials/voltages/currents are not the rows of the same outputs in the full model")
                return
        except Exception as e:
            add_violation(res, "tf_equals_phasor", dict(case, outputs=[list(x) for x in sel]), "a model", "%s: %s" % (type(e).__name__, e), "model construction raised for a selection of outputs", kind="exception:" + type(e).__name__)
            return
    state_ids = [c[1] for c in caps] + [c[1] for c in inds]
    nontrivial = False
    cond_max = 1e10
    if wpal == "poles":
        wpal = dyn.pole_scaled_frequencies(A)
        cond_max = 1e13
    for w in (wpal or dyn.W_PALETTE):
        try:
            H, X = tf(A, B, C, D, float(w))
        except np.linalg.LinAlgError:
            if wpal is not None and wpal is not dyn.W_PALETTE_LONG:
                bump(res["skipped"], "frequency_on_a_lossless_pole")
                continue
            add_violation(res, "tf_equals_phasor", dict(case, w=str(w)), "regular jwI-A", "singular", "jwI - A singular although the circuit is regular at jw")
            return
        for k, sid in enumerate(pub):
            r = dyn.float_response(d, w, sid, cond_max)
            if r is None:
                bump(res["skipped"], "singular_at_jw")
                continue
            phi, cur, nl = r
            res["transitions"] += 1
            s_phi, s_i = rn.source_scale(nl)
            s_phi = max([s_phi] + [abs(v) for v in phi.values()])
            s_i = max([s_i] + [abs(v) for v in cur.values()])
            rtol = 1e-8
            row = 0
            bad = None
            bump(res["hits"], "tf_equals_phasor:potential")
            for nd in nodes:
                if abs(H[row, k] - phi[nd]) > rtol * s_phi:
                    bad = ("tf_equals_phasor", "potential of node %s" % nd, phi[nd], H[row, k])
                    break
                row += 1
            if bad is None:
                row = len(nodes)
                bump(res["hits"], "tf_equals_phasor:voltage")
                for c in comps:
                    ev = phi[c[2][0]] - phi[c[2][1]]
                    if abs(H[row, k] - ev) > rtol * s_phi:
                        bad = ("tf_equals_phasor", "voltage of %s (%s)" % (c[1], c[0]), ev, H[row, k])
                        break
                    row += 1
            if bad is None:
                row = len(nodes) + len(comps)
                bump(res["hits"], "tf_equals_phasor:current")
                for c in comps:
                    if abs(H[row, k] - cur[c[1]]) > rtol * s_i:
                        bad = ("tf_equals_phasor", "current of %s (%s)" % (c[1], c[0]), cur[c[1]], H[row, k])
                        break
                    row += 1
            if bad is None:
                bump(res["hits"], "state_meaning_and_order")
                for j, sid2 in enumerate(state_ids):
                    comp = [c for c in comps if c[1] == sid2][0]
                    ex_ = (phi[comp[2][0]] - phi[comp[2][1]]) if comp[0] == "capacitor" else cur[sid2]
                    sc = s_phi if comp[0] == "capacitor" else s_i
                    if abs(X[j, k] - ex_) > rtol * sc:
                        bad = ("state_meaning_and_order", "state %d should be the %s of %s" % (j, "voltage" if comp[0] == "capacitor" else "current", sid2), ex_, X[j, k])
                        break
            if bad is not None:
                add_violation(res, bad[0], dict(case, w=str(w), source=sid), bad[2], bad[3],
                              "transfer function to %s from source %s at w=%s differs from the phasor response" % (bad[1], sid, w))
                return
            if any(abs(v) > 1e-9 for v in H[:, k]):
                nontrivial = True
            if w == 1:
                res["fps"].add(fp(*[complex(v) for v in H[:4, k]]))
    # DC gain equals the DC solution (library vs library)
    bump(res["hits"], "dc_gain")
    try:
        dc = DCSolution(circuit=circ)
        u = np.array([rc.fl(c[3]["V"] if c[0] == "dc_voltage_source" else c[3]["I"]) for sid in pub for c in srcs if c[1] == sid])
        H0, _ = tf(A, B, C, D, 0.0)
        y = (H0 @ u).real
        exp = [dc.get_potential(nd) for nd in nodes] + [dc.get_voltage(i) for i in ids] + [dc.get_current(i) for i in ids]
        sc = max([1.0] + [abs(v) for v in exp])
        for r_, (a, b_) in enumerate(zip(y, exp)):
            if abs(a - b_) > 1e-8 * sc:
                add_violation(res, "dc_gain", case, float(b_), float(a), "DC gain of output row %d differs from the DC solution" % r_)
                break
    except Exception as e:
        add_violation(res, "dc_gain", case, "DC solution", "%s: %s" % (type(e).__name__, e), "raised", kind="exception:" + type(e).__name__)
    # the model object answers the same when asked again (after all the row queries above)
    bump(res["hits"], "repeated_queries")
    try:
        pub2 = list(ssm.sources)
        pub3 = list(ssm.sources)
        rows_again = [np.asarray(ssm.d_row_current(i), float).reshape(-1) for i in ids] + [np.asarray(ssm.c_row_current(i), float).reshape(-1) for i in ids]
        rows_third = [np.asarray(ssm.d_row_current(i), float).reshape(-1) for i in reversed(ids)] + [np.asarray(ssm.c_row_current(i), float).reshape(-1) for i in reversed(ids)]
        same_rows = all(np.array_equal(a, b_) for a, b_ in zip(rows_again[:len(ids)], reversed(rows_third[:len(ids)]))) and \
            all(np.array_equal(a, b_) for a, b_ in zip(rows_again[len(ids):], reversed(rows_third[len(ids):])))
        if pub2 != pub or pub3 != pub or not same_rows:
            add_violation(res, "input_order_is_sources", case, pub, [pub2, pub3, "rows equal: %s" % same_rows], "the model answers differently when the same question (source list, current rows) is asked again")
    except Exception as e:
        add_violation(res, "input_order_is_sources", case, pub, "%s: %s" % (type(e).__name__, e), "asking the model again raised", kind="exception:" + type(e).__name__)
    if nontrivial:
        res["nontrivial"] += 1
    if len(res["samples"]) < 2:
        res["samples"].append({"circuit": d, "sources": pub, "A": np.round(A, 6).tolist()})


def vacuity(agg, tier):
    out = []
    for k in ("state_dimension", "input_order_is_sources", "tf_equals_phasor:potential", "tf_equals_phasor:voltage", "tf_equals_phasor:current", "state_meaning_and_order", "dc_gain"):
        if agg["hits"].get(k, 0) == 0:
            out.append("sub-check %s never fired" % k)
    if agg["states"] < 1000:
        out.append("fewer than 1000 circuits in the domain")
    return out
