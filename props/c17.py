"""C17 - loading describes exactly what was written, without side effects (shape G: histories)."""
import copy
import itertools
import json
import math
import os
import shutil
import tempfile

from mc import adapt
from mc.ref import netlist as rn
from mc.runner import new_result, bump, fp, add_violation
from . import c07

ID = "C17"
LEVEL = "model_checking"
RULE = ("states are description objects; transitions are load operations applied to the SAME object. Network loader: every "
        "kind of the table (12) x complex notation (Cartesian, polar radians) x value palette x position in a 1..3-entry "
        "description, followed by every history of length <= 3 over {load_network(D), to_complex(D[i][key]) with and without "
        "the degree option} on that one object; circuit loader: every kind of the table (10) x value palette x position, "
        "histories of generate_component / undictify_circuit; documents: every tree of depth <= 3 over {dict, two-element list, "
        "list of dicts} with leaves {complex, float, string} (complex at every leaf position) through undictify/dictify, "
        "serialize/deserialize in JSON and YAML and dump/load through real temporary files, each applied up to 3 times to the "
        "same object; every step is compared with the same operation on a pristine deep copy and the object is compared with "
        "its snapshot; states = distinct description objects, transitions = operations judged; non-trivial = object containing "
        "a complex value"
        ' Additions: loaded polar documents through both round trips; documents with shared sub-objects; load_network_from_json.')
ASSUMPTIONS = ["python json/yaml libraries", "float repr round-trips exactly through JSON and YAML"]
EXPLANATION = "explicit exploration of operation histories on shared description objects with a deep-snapshot oracle"

CVALS = [(3.0, 4.0), (-2.0, 0.5), (0.0, -7.0), (5.0, 0.0), (1e-06, 2e-05), (-4e+16, 3e-07), (3e-13, -4e-13), (1.2345678e-06, 2.5e-07)]   # incl. floats whose repr is d e-xx / d e+xx
RVALS = [10, 0.25, 4700.0, 1e-05, 2e+16]
NET_KINDS = ["resistor", "conductor", "impedance", "admittance", "linear_current_source", "current_source", "real_current_source",
             "linear_voltage_source", "voltage_source", "real_voltage_source", "short_circuit", "open_circuit"]
CIR_KINDS = ["resistor", "conductance", "impedance", "admittance", "dc_voltage_source", "ac_voltage_source", "complex_voltage_source",
             "dc_current_source", "ac_current_source", "complex_current_source"]


def budget_s(tier):
    return 1200 if tier == "quick" else 3600


def cdict(z, notation):
    re, im = z
    if notation == "cart":
        return {"real": re, "imag": im}
    c = complex(re, im)
    import cmath
    if notation == "polar":
        return {"abs": abs(c), "phase": cmath.phase(c)}
    return {"abs": abs(c), "phase": math.degrees(cmath.phase(c))}


def net_entry(kind, idx, zi, ri, notation):
    """(entry dict, expected netlist branch)"""
    z = CVALS[zi % len(CVALS)]
    z2 = CVALS[(zi + 1) % len(CVALS)]
    r = RVALS[ri % len(RVALS)]
    n1, n2, bid = str(idx + 1), "0", "E%d" % idx
    e = {"type": kind, "id": bid, "N1": n1, "N2": n2}
    C = lambda t: [t[0], t[1]]
    if kind == "resistor":
        e["R"] = r
        exp = [n1, n2, "Z", bid, [[r, 0]]]
    elif kind == "conductor":
        e["G"] = r
        exp = [n1, n2, "Y", bid, [[r, 0]]]
    elif kind == "impedance":
        e["Z"] = cdict(z, notation)
        exp = [n1, n2, "Z", bid, [C(z)]]
    elif kind == "admittance":
        e["Y"] = cdict(z, notation)
        exp = [n1, n2, "Y", bid, [C(z)]]
    elif kind == "linear_current_source":
        e["I"] = cdict(z, notation)
        e["Y"] = cdict(z2, notation)
        exp = [n1, n2, "LI", bid, [C(z), C(z2)]]
    elif kind == "current_source":
        e["I"] = cdict(z, notation)
        exp = [n1, n2, "I", bid, [C(z)]]
    elif kind == "real_current_source":
        e["I"] = r
        exp = [n1, n2, "I", bid, [[r, 0]]]
    elif kind == "linear_voltage_source":
        e["V"] = cdict(z, notation)
        e["Z"] = cdict(z2, notation)
        exp = [n1, n2, "LV", bid, [C(z), C(z2)]]
    elif kind == "voltage_source":
        e["V"] = cdict(z, notation)
        exp = [n1, n2, "V", bid, [C(z)]]
    elif kind == "real_voltage_source":
        e["V"] = r
        exp = [n1, n2, "V", bid, [[r, 0]]]
    elif kind == "short_circuit":
        exp = [n1, n2, "short", bid, []]
    elif kind == "open_circuit":
        exp = [n1, n2, "open", bid, []]
    else:
        raise ValueError(kind)
    return e, exp


def cir_entry(kind, idx, zi, ri):
    z = complex(*CVALS[zi % len(CVALS)])
    z2 = complex(*CVALS[(zi + 1) % len(CVALS)])
    r = RVALS[ri % len(RVALS)]
    cid = "K%d" % idx
    nodes = [str(idx + 1), "0"]
    if kind == "resistor":
        val, ev = {"R": r}, {"R": r}
    elif kind == "conductance":
        val, ev = {"G": r}, {"G": r}
    elif kind == "impedance":
        val, ev = {"Z": z}, {"R": z.real, "X": z.imag}
    elif kind == "admittance":
        val, ev = {"Y": z}, {"G": z.real, "B": z.imag}
    elif kind == "dc_voltage_source":
        val, ev = {"V": r, "R": 2}, {"V": r, "R": 2, "w": 0, "phi": 0}
    elif kind == "ac_voltage_source":
        val, ev = {"V": r, "w": 3, "phi": 0.5}, {"V": r, "R": 0, "w": 3, "phi": 0.5}
    elif kind == "complex_voltage_source":
        val, ev = {"V": z, "Z": z2}, {"V_real": z.real, "V_imag": z.imag, "R": z2.real, "X": z2.imag}
    elif kind == "dc_current_source":
        val, ev = {"I": r, "G": 0.5}, {"I": r, "G": 0.5, "w": 0, "phi": 0}
    elif kind == "ac_current_source":
        val, ev = {"I": r, "w": 3, "phi": -1.0}, {"I": r, "G": 0, "w": 3, "phi": -1.0}
    elif kind == "complex_current_source":
        val, ev = {"I": z, "Y": z2}, {"I_real": z.real, "I_imag": z.imag, "G": z2.real, "B": z2.imag}
    else:
        raise ValueError(kind)
    return {"type": kind, "id": cid, "nodes": nodes, "value": val}, (kind, cid, tuple(nodes), ev)


def shards(tier):
    out = []
    for kind in NET_KINDS:
        out.append(("network loader", ("net", kind)))
    for kind in CIR_KINDS:
        out.append(("circuit loader", ("cir", kind)))
    out.append(("notations", ("notation",)))
    nd = 8 if tier == "quick" else 64
    for i in range(nd):
        out.append(("documents", ("doc", i, nd, tier)))
    return out


def run_shard(desc):
    res = new_result()
    if desc[0] == "net":
        run_net(desc[1], res)
    elif desc[0] == "cir":
        run_cir(desc[1], res)
    elif desc[0] == "notation":
        run_notation(res)
    else:
        run_docs(desc[1], desc[2], desc[3], res)
    return res


# ------------------------------------------------------------------ JSON-able encoding of documents with complex leaves
def enc(x):
    if isinstance(x, complex):
        return {"__complex__": [x.real, x.imag]}
    if isinstance(x, dict):
        return {k: enc(v) for k, v in x.items()}
    if isinstance(x, (list, tuple)):
        return [enc(v) for v in x]
    return x


def dec(x):
    if isinstance(x, dict):
        if set(x) == {"__complex__"}:
            return complex(x["__complex__"][0], x["__complex__"][1])
        return {k: dec(v) for k, v in x.items()}
    if isinstance(x, list):
        return [dec(v) for v in x]
    return x


def deep_equal(a, b):
    if type(a) is not type(b) and not (isinstance(a, (int, float)) and isinstance(b, (int, float)) and not isinstance(a, bool) and not isinstance(b, bool)):
        if not (isinstance(a, (list, tuple)) and isinstance(b, (list, tuple))):
            return False
    if isinstance(a, dict):
        return a.keys() == b.keys() and all(deep_equal(a[k], b[k]) for k in a)
    if isinstance(a, (list, tuple)):
        return len(a) == len(b) and all(deep_equal(x, y) for x, y in zip(a, b))
    return a == b


def replay(case):
    res = new_result()
    if case["what"] == "net":
        history_net(dec(case["description"]), case["expected"], case["history"], res)
    elif case["what"] == "cir":
        history_cir(dec(case["description"]), None, case["history"], res, expected_enc=case.get("expected"))
    elif case["what"] == "notation":
        run_notation(res)
    else:
        history_doc(dec(case["document"]), case["history"], res)
    return res["violations"]


# ------------------------------------------------------------------ network loader
def net_ops(desc):
    """operation alphabet on one description object"""
    ops = [["load_network"]]
    for i, e in enumerate(desc):
        for k, v in e.items():
            if isinstance(v, dict):
                ops.append(["to_complex", i, k, False])
                if "phase" in v:
                    ops.append(["to_complex", i, k, True])
    return ops


def apply_net_op(desc, op):
    from CircuitCalculator.Network import loaders
    if op[0] == "load_network":
        return adapt.to_netlist(loaders.load_network(desc))
    if op[0] == "load_network_from_json":
        d = tempfile.mkdtemp(prefix="verif_c17_")
        try:
            path = os.path.join(d, "net.json")
            with open(path, "w") as f:
                json.dump(desc, f)
            return adapt.to_netlist(loaders.load_network_from_json(path))
        finally:
            shutil.rmtree(d, ignore_errors=True)
    z = loaders.to_complex(desc[op[1]][op[2]], degree=op[3])
    return [z.real, z.imag]


def run_net(kind, res):
    for notation in ("cart", "polar"):
        for zi in range(len(CVALS)):
            for ri in range(len(RVALS)):
                if kind in ("resistor", "conductor", "real_current_source", "real_voltage_source", "short_circuit", "open_circuit"):
                    if notation == "polar" or zi > 0:
                        continue
                elif ri > 0:
                    continue
                for size in (1, 2, 3):
                    for pos in range(size):
                        desc, exp = [], []
                        for j in range(size):
                            k2 = kind if j == pos else NET_KINDS[(NET_KINDS.index(kind) + 1 + j) % len(NET_KINDS)]
                            e, x = net_entry(k2, j, zi + j, ri + j, notation)
                            desc.append(e)
                            exp.append(x)
                        res["evals"] += 1
                        res["states"] += 1
                        if any(isinstance(v, dict) for e in desc for v in e.values()):
                            res["nontrivial"] += 1
                        ops = net_ops(desc)
                        history_net(copy.deepcopy(desc), exp, [["load_network_from_json"], ["load_network"], ["load_network_from_json"]], res)
                        for L in (1, 2, 3):
                            seqs = itertools.product(ops, repeat=L)
                            for seq in seqs:
                                if L == 3 and not (seq[0][0] == "load_network" or seq[2][0] == "load_network"):
                                    continue
                                history_net(copy.deepcopy(desc), exp, [list(o) for o in seq], res)


def history_net(desc, exp, history, res):
    pristine = copy.deepcopy(desc)
    case = {"what": "net", "description": enc(pristine), "expected": exp, "history": history}
    for step, op in enumerate(history):
        res["transitions"] += 1
        snap = copy.deepcopy(desc)
        # isolation: the same operation on a pristine copy
        try:
            iso = apply_net_op(copy.deepcopy(pristine), op)
            iso_err = None
        except Exception as e:
            iso, iso_err = None, e
        try:
            got = apply_net_op(desc, op)
            err = None
        except Exception as e:
            got, err = None, e
        if op[0] in ("load_network", "load_network_from_json"):
            bump(res["hits"], "kind_loads_exactly")
            if iso_err is not None:
                add_violation(res, "kind_loads_exactly", dict(case, history=[op]), "the described network", "%s: %s" % (type(iso_err).__name__, iso_err),
                              "a valid description does not load (kinds %s)" % sorted({e["type"] for e in pristine}), kind="exception:" + type(iso_err).__name__)
                return
            ok = iso["ref"] == "0" and len(iso["branches"]) == len(exp)
            if ok:
                for g, e_ in zip(iso["branches"], exp):
                    if g[:2] != e_[:2] or g[3] != e_[3] or c07.norm(g)[0] != c07.norm(e_)[0] or not c07.close(c07.norm(g)[1], c07.norm(e_)[1], 1e-12) or not c07.close(c07.norm(g)[2], c07.norm(e_)[2], 1e-12):
                        ok = False
            if not ok:
                add_violation(res, "kind_loads_exactly", dict(case, history=[op]), exp, iso["branches"], "loaded network is not exactly what the description says")
                return
            res["fps"].add(fp(repr(iso["branches"])))
        bump(res["hits"], "reload_equal")
        if (err is None) != (iso_err is None) or (err is None and not deep_equal(got, iso)):
            add_violation(res, "reload_equal", case, iso if iso_err is None else repr(iso_err), got if err is None else "%s: %s" % (type(err).__name__, err),
                          "step %d (%s) on the reused description differs from the same operation on a pristine copy" % (step, op[0]),
                          kind="exception:" + type(err).__name__ if err is not None else "wrong_value")
            return
        bump(res["hits"], "argument_unchanged")
        if not deep_equal(desc, snap):
            add_violation(res, "argument_unchanged", dict(case, history=history[:step + 1]), enc(snap), enc(desc), "%s mutated the description it was given" % op[0], kind="mutated:" + op[0])
            return
    if len(res["samples"]) < 1 and len(history) == 3:
        res["samples"].append({"description": enc(pristine), "history": history})


# ------------------------------------------------------------------ circuit loader
def comp_tuple(c):
    return (c.type, c.id, tuple(c.nodes), dict(c.value))


def apply_cir_op(doc, op):
    from CircuitCalculator.Circuit import dump_load as cdl
    if op[0] == "generate_component":
        return [comp_tuple(cdl.generate_component(doc["components"][op[1]]))]
    if op[0] == "undictify_circuit":
        return [comp_tuple(c) for c in cdl.undictify_circuit(doc).components]
    if op[0] == "deserialize_json":
        from CircuitCalculator import dump_load as dl
        text = json.dumps(dl.dictify_all_complex_values(copy.deepcopy(doc)) if False else doc_to_jsonable(doc))
        d2 = dl.deserialize(text, "json")
        return [comp_tuple(c) for c in cdl.undictify_circuit(d2).components]
    raise ValueError(op)


def doc_to_jsonable(x):
    """the documented complex notation {'real','imag'} written by hand (not by the library)"""
    if isinstance(x, complex):
        return {"real": x.real, "imag": x.imag}
    if isinstance(x, dict):
        return {k: doc_to_jsonable(v) for k, v in x.items()}
    if isinstance(x, (list, tuple)):
        return [doc_to_jsonable(v) for v in x]
    return x


def run_cir(kind, res):
    for zi in range(len(CVALS)):
        for ri in range(len(RVALS)):
            if kind in ("impedance", "admittance", "complex_voltage_source", "complex_current_source"):
                if ri > 0:
                    continue
            elif zi > 0:
                continue
            for size in (1, 2, 3):
                for pos in range(size):
                    comps, exp = [], []
                    for j in range(size):
                        k2 = kind if j == pos else CIR_KINDS[(CIR_KINDS.index(kind) + 1 + j) % len(CIR_KINDS)]
                        e, x = cir_entry(k2, j, zi + j, ri + j)
                        comps.append(e)
                        exp.append(x)
                    doc = {"components": comps}
                    res["evals"] += 1
                    res["states"] += 1
                    res["nontrivial"] += 1
                    ops = [["undictify_circuit"], ["deserialize_json"]] + [["generate_component", i] for i in range(size)]
                    for L in (1, 2, 3):
                        for seq in itertools.product(ops, repeat=L):
                            history_cir(copy.deepcopy(doc), exp, [list(o) for o in seq], res)


def history_cir(doc, exp, history, res, expected_enc=None):
    pristine = copy.deepcopy(doc)
    if exp is None and expected_enc is not None:
        exp = [(e[0], e[1], tuple(e[2]), dec(e[3])) for e in expected_enc]
    case = {"what": "cir", "description": enc(pristine), "expected": enc([list(e[:2]) + [list(e[2]), e[3]] for e in exp]), "history": history}
    for step, op in enumerate(history):
        res["transitions"] += 1
        snap = copy.deepcopy(doc)
        try:
            iso = apply_cir_op(copy.deepcopy(pristine), op)
            iso_err = None
        except Exception as e:
            iso, iso_err = None, e
        try:
            got = apply_cir_op(doc, op)
            err = None
        except Exception as e:
            got, err = None, e
        bump(res["hits"], "kind_loads_exactly:circuit")
        want = exp if op[0] != "generate_component" else [exp[op[1]]]
        if iso_err is not None:
            add_violation(res, "kind_loads_exactly", dict(case, history=[op]), "components", "%s: %s" % (type(iso_err).__name__, iso_err),
                          "a valid circuit description does not load via %s" % op[0], kind="exception:" + type(iso_err).__name__)
            return
        if not deep_equal([list(x) for x in iso], [list(x) for x in want]):
            add_violation(res, "kind_loads_exactly", dict(case, history=[op]), enc([list(x) for x in want]), enc([list(x) for x in iso]), "loaded components are not exactly what the description says")
            return
        res["fps"].add(fp(repr(iso)))
        bump(res["hits"], "reload_equal")
        if (err is None) != (iso_err is None) or (err is None and not deep_equal([list(x) for x in got], [list(x) for x in iso])):
            add_violation(res, "reload_equal", case, enc(iso), enc(got) if err is None else "%s: %s" % (type(err).__name__, err),
                          "step %d (%s) on the reused description differs from a pristine copy" % (step, op[0]))
            return
        bump(res["hits"], "argument_unchanged")
        if not deep_equal(doc, snap):
            add_violation(res, "argument_unchanged", dict(case, history=history[:step + 1]), enc(snap), enc(doc), "%s mutated the description it was given" % op[0], kind="mutated:" + op[0])
            return


# ------------------------------------------------------------------ notations
def run_notation(res):
    from CircuitCalculator.Network import loaders
    from CircuitCalculator import dump_load as dl
    import cmath
    res["evals"] += 1
    for re, im in CVALS + [(1e-3, 2e3), (-1.0, -1.0), (0.0, 1.0)]:
        z = complex(re, im)
        res["states"] += 1
        res["nontrivial"] += 1
        case = {"what": "notation", "z": [re, im]}
        for name, f in (
            ("to_complex cart", lambda: loaders.to_complex({"real": re, "imag": im})),
            ("to_complex polar", lambda: loaders.to_complex({"abs": abs(z), "phase": cmath.phase(z)})),
            ("to_complex polar degree", lambda: loaders.to_complex({"abs": abs(z), "phase": math.degrees(cmath.phase(z))}, degree=True)),
            ("undictify cart", lambda: dl.undictify_complex_values({"z": {"real": re, "imag": im}})["z"]),
            ("undictify polar", lambda: dl.undictify_complex_values({"z": {"abs": abs(z), "phase": cmath.phase(z)}})["z"]),
            ("undictify polar degree", lambda: dl.undictify_complex_values({"z": {"abs": abs(z), "phase_deg": math.degrees(cmath.phase(z))}})["z"]),
        ):
            res["transitions"] += 1
            bump(res["hits"], "notations_agree")
            try:
                got = complex(f())
            except Exception as e:
                add_violation(res, "notations_agree", dict(case, notation=name), z, "%s: %s" % (type(e).__name__, e), "notation %s raised" % name, kind="exception:" + type(e).__name__)
                continue
            if abs(got - z) > 1e-12 * abs(z):
                add_violation(res, "notations_agree", dict(case, notation=name), z, got, "notation %s denotes another number" % name)
            res["fps"].add(fp(got))
        # a document written in polar notation, once loaded, is a document with complex values like any other:
        # it survives both round trips of the library
        import json as _json
        text = _json.dumps({"k": {"abs": abs(z), "phase": cmath.phase(z)}, "lst": [{"z": {"abs": abs(z), "phase_deg": math.degrees(cmath.phase(z))}}, 2.5]})
        for fmt in ("json", "yaml"):
            res["transitions"] += 1
            bump(res["hits"], "roundtrip_" + fmt)
            c2 = dict(case, notation="polar document loaded, then %s round trip" % fmt)
            try:
                loaded = dl.deserialize(text, "json")
                again = dl.deserialize(dl.serialize(loaded, fmt), fmt)
            except Exception as e:
                add_violation(res, "roundtrip_" + fmt, c2, z, "%s: %s" % (type(e).__name__, e), "a loaded polar document does not survive the %s round trip" % fmt, kind="exception:" + type(e).__name__)
                continue
            try:
                vals = [complex(again["k"]), complex(again["lst"][0]["z"])]
                ok = all(abs(v - z) <= 1e-12 * abs(z) for v in vals) and again["lst"][1] == 2.5 and deep_equal(again, loaded)
            except Exception:
                ok = False
            if not ok:
                add_violation(res, "roundtrip_" + fmt, c2, z, enc(again), "a loaded polar document changed in the %s round trip" % fmt)


# ------------------------------------------------------------------ nested documents
LEAVES = [complex(1.5, -2.0), 3.25, "txt", complex(1e-06, -2e+16), 1e-05]


def trees(depth, full=False):
    if depth == 0:
        return list(LEAVES)
    sub = trees(depth - 1, full)
    out = list(LEAVES)
    for x in sub:
        out.append({"a": x})
    for x, y in itertools.product(sub, repeat=2):
        if not full and depth >= 2 and not (isinstance(x, (complex, float, str)) or isinstance(y, (complex, float, str))):
            continue     # quick: keep depth-2 lists to at least one scalar item (size bound)
        out.append([x, y])
    return out


def documents(tier):
    docs = []
    for x in trees(2, full=(tier == "thorough")):
        docs.append({"k": x, "other": 1.0})
    for x in trees(1):
        docs.append({"k": {"deep": {"deeper": x}}})
        docs.append({"k": [{"z": x}, {"z": complex(0, 1)}]})
    # acyclic documents in which one container object is referenced from several places (the same line record for three lines)
    for x in ({"V": complex(230, 0), "r": 1.5}, [1.0, {"V": complex(0, -2)}], [complex(1, 1), 2.0]):
        docs.append({"L1": x, "L2": x, "L3": x})
        docs.append({"k": [x, 3.0, x]})
        docs.append({"k": [[x, x], {"again": x}]})
    return docs


def doc_ops():
    return [["undictify_all"], ["dictify_all"], ["roundtrip", "json"], ["roundtrip", "yaml"], ["file_roundtrip", "json"], ["file_roundtrip", "yaml"]]


def apply_doc_op(doc, op):
    from CircuitCalculator import dump_load as dl
    if op[0] == "undictify_all":
        return dl.undictify_all_complex_values(doc_to_jsonable_shared(doc))
    if op[0] == "dictify_all":
        return dl.dictify_all_complex_values(doc)
    if op[0] == "roundtrip":
        return dl.deserialize(dl.serialize(doc, op[1]), op[1])
    if op[0] == "file_roundtrip":
        d = tempfile.mkdtemp(prefix="verif_c17_")
        try:
            path = os.path.join(d, "doc." + op[1])
            dl.dump(path, doc)
            return dl.load(path)
        finally:
            shutil.rmtree(d, ignore_errors=True)
    raise ValueError(op)


def doc_to_jsonable_shared(doc):
    return doc


def expected_doc_result(pristine, op):
    if op[0] == "undictify_all":
        return pristine                       # no complex dictionaries inside: unchanged
    if op[0] == "dictify_all":
        return doc_to_jsonable(pristine)
    return pristine


def run_docs(i, n, tier, res):
    docs = documents(tier)
    ops = doc_ops()
    for di, doc in enumerate(docs):
        if di % n != i:
            continue
        res["evals"] += 1
        res["states"] += 1
        if "complex" in repr(enc(doc)):
            res["nontrivial"] += 1
        for L in (1, 2, 3):
            for seq in itertools.product(ops, repeat=L):
                if L == 3 and len({o[0] for o in seq}) == 3 and seq[0][0] == "file_roundtrip":
                    continue
                if L >= 2 and sum(1 for o in seq if o[0] == "file_roundtrip") > 1:
                    continue
                history_doc(copy.deepcopy(doc), [list(o) for o in seq], res)
        # documents written in the documented notation load to complex values
        j = doc_to_jsonable(doc)
        history_doc(j, [["undictify_all"]], res, expect=doc)


def history_doc(doc, history, res, expect=None):
    pristine = copy.deepcopy(doc)
    case = {"what": "doc", "document": enc(pristine), "history": history}
    for step, op in enumerate(history):
        res["transitions"] += 1
        snap = copy.deepcopy(doc)
        try:
            got = apply_doc_op(doc, op)
            err = None
        except Exception as e:
            got, err = None, e
        want = expected_doc_result(pristine, op) if expect is None else expect
        sub = {"undictify_all": "nested_complex_conversion", "dictify_all": "nested_complex_conversion", "roundtrip": "roundtrip_" + (op[1] if len(op) > 1 else ""),
               "file_roundtrip": "roundtrip_" + (op[1] if len(op) > 1 else "")}[op[0]]
        bump(res["hits"], sub)
        if err is not None:
            add_violation(res, sub, dict(case, history=history[:step + 1]), enc(want), "%s: %s" % (type(err).__name__, err), "%s raised on a valid document" % op[0], kind="exception:" + type(err).__name__)
            return
        if not deep_equal(got, want):
            add_violation(res, sub, dict(case, history=history[:step + 1]), enc(want), enc(got), "%s does not return the document that was written" % op[0])
            return
        bump(res["hits"], "argument_unchanged")
        if not deep_equal(doc, snap):
            add_violation(res, "argument_unchanged", dict(case, history=history[:step + 1]), enc(snap), enc(doc), "%s mutated the document it was given" % op[0], kind="mutated:" + op[0])
            return
        res["fps"].add(fp(repr(enc(got))))
        # the caller owns what it was given back: edit it, so that a loader handing out a cached or aliased object shows up
        # as a different result in the next step
        _scribble(got)
        if not deep_equal(doc, snap):
            add_violation(res, "argument_unchanged", dict(case, history=history[:step + 1]), enc(snap), enc(doc),
                          "the object returned by %s shares mutable parts with the document it was given" % op[0], kind="aliased:" + op[0])
            return


def _scribble(x, depth=0):
    if depth > 6:
        return
    if isinstance(x, dict):
        for v in list(x.values()):
            _scribble(v, depth + 1)
        x.clear()
        x["scribbled"] = True
    elif isinstance(x, list):
        for v in list(x):
            _scribble(v, depth + 1)
        x.clear()
        x.append("scribbled")


def vacuity(agg, tier):
    out = []
    for k in ("kind_loads_exactly", "kind_loads_exactly:circuit", "notations_agree", "roundtrip_json", "roundtrip_yaml", "argument_unchanged", "reload_equal", "nested_complex_conversion"):
        if agg["hits"].get(k, 0) == 0:
            out.append("sub-check %s never fired" % k)
    return out
