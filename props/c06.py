"""C06 - port behaviour: driving-point impedance and Thevenin/Norton equivalents (shape S)."""
import itertools
import numpy as np

from mc import space as sp
from mc import adapt
from mc import exact as ex
from mc.ref import netlist as rn
from mc.runner import new_result, bump, fp, add_violation
from . import common as cm

ID = "C06"
LEVEL = "model_checking"
RULE = ("every connected labelled multigraph topology up to the listed levels x kind assignment over "
        "{Z,Y,V,I,LV,LI,open} x orientation x label tuple; per network every reference node, every ordered node pair "
        "(port impedance, symmetry, Thevenin with 4 loads), every element (element impedance); circuit level: RLC "
        "ladders x frequency sweep through the sweep wrappers. A port query is judged when its exact reference "
        "(sources deactivated, unit current injected, parts reachable only through open branches dropped) is finite; "
        "states = distinct (network, reference) pairs judged, transitions = library port/Thevenin queries judged; "
        "non-trivial = judged network with at least one non-zero port impedance"
        ' Additions: palettes small and eq.')
ASSUMPTIONS = ["numpy.linalg accuracy on the palettes", "islands of two or more nodes hanging on open branches are outside the domain"]
EXPLANATION = "direct exploration of the real port-impedance, open-circuit-voltage, short-circuit-current and equivalent-source code"
KINDS_P = ("Z", "V", "I", "LV", "Y", "LI", "open")
LOADS = [1, 7, [2, 3], 1000]


def budget_s(tier):
    return 1200 if tier == "quick" else 10800


LEVELS_QUICK = [
    (2, 1, KINDS_P, ("real",), ("plain",)),
    (2, 2, KINDS_P, ("real", "cplx", "small", "eq"), ("plain", "odd")),
    (2, 3, KINDS_P, ("cplx",), ("plain",)),
    (3, 2, KINDS_P, ("real", "cplx", "small", "eq"), ("plain", "odd")),
    (3, 3, ("Z", "V", "I", "LV", "open"), ("cplx",), ("plain", "odd")),
    (3, 4, ("Z", "V", "I"), ("real",), ("odd",)),
    (4, 3, ("Z", "V", "open"), ("real",), ("plain",)),
]
LEVELS_THOROUGH = [
    (2, 1, KINDS_P, ("real", "cplx", "dec"), ("plain", "odd")),
    (2, 2, KINDS_P, ("real", "cplx", "dec", "small", "eq"), ("plain", "odd")),
    (2, 3, KINDS_P, ("real", "cplx", "dec", "small", "eq"), ("plain", "odd")),
    (3, 2, KINDS_P, ("real", "cplx", "dec"), ("plain", "odd")),
    (3, 3, KINDS_P, ("real", "cplx"), ("plain", "odd")),
    (3, 4, ("Z", "V", "I", "LV", "open"), ("cplx",), ("plain", "odd")),
    (4, 3, KINDS_P, ("real",), ("plain", "odd")),
    (4, 4, ("Z", "V", "I"), ("real",), ("plain", "odd")),
    (4, 5, ("Z", "V"), ("cplx",), ("odd",)),
]


def shards(tier):
    out = []
    for (n, b, kinds, pals, labs) in (LEVELS_QUICK if tier == "quick" else LEVELS_THOROUGH):
        topos = sp.topologies(n, b)
        nk = len(kinds) ** b
        per = max(1, 400 // ((2 ** b) * len(pals) * len(labs) * n))
        for ti in range(len(topos)):
            for ch in sp.chunks(range(nk), per):
                out.append(("N(%d,%d)|K%d" % (n, b, len(kinds)), ("net", n, b, ti, kinds, ch[0], ch[-1] + 1, pals, labs)))
    for i in range(len(circuit_pool(tier))):
        out.append(("RLC-sweep", ("cir", i, tier)))
    return out


def run_shard(desc):
    res = new_result()
    if desc[0] == "cir":
        run_circuit(desc[1], desc[2], res)
        return res
    _, n, b, ti, kinds, k0, k1, pals, labs = desc
    topo = sp.topologies(n, b)[ti]
    allk = list(itertools.product(kinds, repeat=b))
    for kt in allk[k0:k1]:
        for pal in pals:
            for orient in range(2 ** b):
                for lab in labs:
                    labels = sp.LABELS_PLAIN[:n] if lab == "plain" else sp.LABELS_ODD[:n]
                    base = cm.build_netlist(topo, kt, orient, 0, labels, pal, sp.IDS_ASC[:b])
                    judge_network(base, pal, res)
    return res


def replay(case):
    res = new_result()
    if "circuit" in case:
        judge_circuit(case["circuit"], case["w"], res)
    else:
        judge_network(case["netlist"], case.get("palette", "real"), res, only_ref=case["netlist"]["ref"])
    return res["violations"]


def _cx(x):
    return complex(x) if not isinstance(x, str) and x is not None else x


def judge_network(base, pal, res, only_ref=None):
    from CircuitCalculator.Network.NodalAnalysis.node_analysis import open_circuit_impedance, element_impedance
    from CircuitCalculator.Network.NodalAnalysis import bias_point_analysis as bpa
    rtol = cm.rtol_for(pal)
    nodes = rn.nodes_of(base)
    zs = [abs(z) for z in (rn.immittance(b)[0] for b in base["branches"]) if z is not None and z]
    zscale = max(zs) if zs else 1.0
    whole_wp = rn.well_posed(base)
    if rn.has_zero_impedance_loop(base):
        # a loop of ideal voltage sources / shorts: ill-posed for every source value, outside the domain
        res["evals"] += len(nodes)
        bump(res["skipped"], "zero_impedance_loop", len(nodes))
        return
    # exact port impedances (reference independent by construction of the reference)
    exact = {}
    for a, b_ in itertools.combinations(nodes, 2):
        exact[(a, b_)] = exact[(b_, a)] = rn.port_impedance(base, a, b_)
    any_nonzero = False
    for ref in (nodes if only_ref is None else [only_ref]):
        nl = {"ref": ref, "branches": base["branches"]}
        case = {"netlist": nl, "palette": pal}
        res["evals"] += 1
        try:
            net = adapt.network(nl)
        except Exception as e:
            add_violation(res, "port_impedance_exact", case, "network", repr(e), "cannot build", kind="exception:" + type(e).__name__)
            continue
        judged = False
        libz = {}
        for a in nodes:
            bump(res["hits"], "zero_cases")
            try:
                z = open_circuit_impedance(net, a, a)
                if z != 0:
                    add_violation(res, "zero_cases", case, 0, z, "Z(%s,%s) not zero" % (a, a))
            except Exception as e:
                add_violation(res, "zero_cases", case, 0, repr(e), "Z(%s,%s) raised" % (a, a), kind="exception:" + type(e).__name__)
        for a, b_ in itertools.permutations(nodes, 2):
            ze = exact[(a, b_)]
            if ze is None or ze == "inf":
                bump(res["skipped"], "port_infinite_or_singular")
                continue
            res["transitions"] += 1
            judged = True
            bump(res["hits"], "port_impedance_exact")
            zec = complex(ze)
            if abs(zec) > 0:
                any_nonzero = True
            try:
                z = complex(open_circuit_impedance(net, a, b_))
            except Exception as e:
                add_violation(res, "port_impedance_exact", dict(case, port=[a, b_]), zec, "%s: %s" % (type(e).__name__, e),
                              "Z(%s,%s) raised" % (a, b_), kind="exception:" + type(e).__name__)
                continue
            libz[(a, b_)] = z
            if not abs(z - zec) <= rtol * zscale:
                add_violation(res, "port_impedance_exact", dict(case, port=[a, b_]), zec, z, "Z(%s,%s) wrong" % (a, b_))
            res["fps"].add(fp(z))
            if any(br[2] == "V" and {br[0], br[1]} == {a, b_} for br in nl["branches"]):
                bump(res["hits"], "zero_cases")
                if z != 0:
                    add_violation(res, "zero_cases", dict(case, port=[a, b_]), 0, z, "Z across an ideal voltage source not zero")
        for (a, b_), z in libz.items():
            if (b_, a) in libz and a < b_:
                bump(res["hits"], "symmetry")
                if abs(z - libz[(b_, a)]) > rtol * zscale:
                    add_violation(res, "symmetry", dict(case, port=[a, b_]), z, libz[(b_, a)], "Z(a,b) != Z(b,a)")
        # element impedance = port impedance seen by the element with the element removed
        for br in nl["branches"]:
            rest = {"ref": ref, "branches": [x for x in nl["branches"] if x[3] != br[3]]}
            if ref not in {x[0] for x in rest["branches"]} | {x[1] for x in rest["branches"]}:
                bump(res["skipped"], "element_removal_orphans_reference")
                continue
            if br[0] not in rn.nodes_of(rest) or br[1] not in rn.nodes_of(rest):
                bump(res["skipped"], "element_removal_orphans_terminal")
                continue
            ze = rn.port_impedance(rest, br[0], br[1])
            if ze is None or ze == "inf":
                bump(res["skipped"], "element_sees_infinite_or_singular")
                continue
            res["transitions"] += 1
            judged = True
            bump(res["hits"], "element_impedance")
            try:
                z = complex(element_impedance(net, br[3]))
            except Exception as e:
                add_violation(res, "element_impedance", dict(case, element=br[3]), complex(ze), "%s: %s" % (type(e).__name__, e),
                              "element_impedance(%s) raised" % br[3], kind="exception:" + type(e).__name__)
                continue
            if not abs(z - complex(ze)) <= rtol * zscale:
                add_violation(res, "element_impedance", dict(case, element=br[3]), complex(ze), z, "impedance seen by %s wrong" % br[3])
        # Thevenin / Norton
        if whole_wp:
            judged = True
            thevenin(nl, net, nodes, exact, pal, res, case, zscale)
        if judged:
            res["states"] += 1
            if len(res["samples"]) < 2 and libz:
                res["samples"].append({"netlist": nl, "Z": {"%s,%s" % k: [v.real, v.imag] for k, v in list(libz.items())[:3]}})
    if any_nonzero:
        res["nontrivial"] += 1


def thevenin(nl, net, nodes, exact, pal, res, case, zscale):
    from CircuitCalculator.Network.NodalAnalysis import bias_point_analysis as bpa
    from CircuitCalculator.Network.NodalAnalysis.node_analysis import open_circuit_impedance
    from CircuitCalculator.Network.network import Network, Branch
    from CircuitCalculator.Network import elements as elm
    rtol = cm.rtol_for(pal)
    phi_ref, cur_ref = cm.float_tableau_solution(nl)
    s_phi, s_i = cm.scales(nl, phi_ref, cur_ref)
    for a, b_ in itertools.permutations(nodes, 2):
        ze = exact[(a, b_)]
        if ze is None or ze == "inf":
            continue
        zth_e = complex(ze)
        voc_e = phi_ref[a] - phi_ref[b_]
        c2 = dict(case, port=[a, b_])
        res["transitions"] += 1
        bump(res["hits"], "thevenin_load")
        try:
            voc = complex(bpa.open_circuit_voltage(net, a, b_))
            zth = complex(open_circuit_impedance(net, a, b_))
        except Exception as e:
            add_violation(res, "thevenin_load", c2, "Voc,Zth", "%s: %s" % (type(e).__name__, e), "raised", kind="exception:" + type(e).__name__)
            continue
        res["fps"].add(fp(voc, zth))
        if abs(voc - voc_e) > rtol * s_phi:
            add_violation(res, "thevenin_load", c2, voc_e, voc, "open-circuit voltage wrong")
        for zl_spec in LOADS:
            zl = rn.c(zl_spec)
            # exact loaded voltage from the reference with the load attached
            loaded = {"ref": nl["ref"], "branches": nl["branches"] + [[a, b_, "Z", "__load__", [zl_spec]]]}
            try:
                lnet = Network(list(net.branches) + [Branch(a, b_, elm.impedance("__load__", zl))], node_zero_label=nl["ref"])
                lsol = bpa.nodal_analysis_bias_point_solver(lnet)
                vl = complex(lsol.get_voltage("__load__"))
            except Exception as e:
                add_violation(res, "thevenin_load", dict(c2, load=zl_spec), "loaded solution", "%s: %s" % (type(e).__name__, e), "raised", kind="exception:" + type(e).__name__)
                continue
            if abs(zth + zl) < 1e-9 * max(abs(zl), 1):
                continue
            pred = voc * zl / (zth + zl)
            scale_here = max(s_phi, abs(voc_e))
            if abs(vl - pred) > max(rtol, 1e-9) * scale_here * max(1.0, abs(zl) / abs(zth + zl)):
                add_violation(res, "thevenin_load", dict(c2, load=zl_spec), pred, vl,
                              "V_load != Voc*ZL/(Zth+ZL) with the library's own Voc=%r Zth=%r" % (voc, zth))
        if abs(zth_e) > 0:
            bump(res["hits"], "isc_is_voc_over_zth")
            try:
                isc = complex(bpa.short_circuit_current(net, a, b_))
                if abs(isc - voc_e / zth_e) > rtol * max(s_i, abs(voc_e / zth_e)):
                    add_violation(res, "isc_is_voc_over_zth", c2, voc_e / zth_e, isc, "short-circuit current wrong")
            except Exception as e:
                add_violation(res, "isc_is_voc_over_zth", c2, voc_e / zth_e, "%s: %s" % (type(e).__name__, e), "raised", kind="exception:" + type(e).__name__)
            bump(res["hits"], "equivalent_source_objects")
            try:
                from CircuitCalculator.Network import equivalent_sources as eqs
                th = eqs.TheveninEquivalentSource(net, a, b_)
                no = eqs.NortenEquivalentSource(net, a, b_)
                vals = (complex(th.U), complex(th.Z), complex(no.I), complex(no.Y))
                exp = (voc_e, zth_e, voc_e / zth_e, 1 / zth_e)
                tol = (rtol * s_phi, rtol * zscale, rtol * max(s_i, abs(exp[2])), rtol * abs(exp[3]))
                for nm, v, e_, t in zip(("U", "Z", "I", "Y"), vals, exp, tol):
                    if abs(v - e_) > t:
                        add_violation(res, "equivalent_source_objects", c2, e_, v, "equivalent source parameter %s wrong" % nm)
            except Exception as e:
                add_violation(res, "equivalent_source_objects", c2, "Thevenin/Norton objects", "%s: %s" % (type(e).__name__, e),
                              "equivalent source objects raised", kind="exception:" + type(e).__name__)


# ---------------------------------------------------------------- circuit level sweeps
SWEEP = [0, 0.5, 1, 2, 10, 1000]
SWEEP_RTOL = 1e-6   # the sweep spans seven decades of immittance (decades rule of DESIGN 2.2)


def circuit_pool(tier):
    """RLC circuits as plain descriptions: list of [kind, id, n1, n2, value]."""
    pool = []
    vals_r = [2, 3, 5, 7]
    # ladders: series element / shunt element patterns
    pats = ["RC", "RL", "LC", "CR", "LR", "CL", "RR"]
    for pat in pats:
        for sections in ([1, 2, 3] if tier == "quick" else [1, 2, 3, 4, 5, 6]):
            comps = [["V", "Vs", "1", "0", 1]]
            for s in range(sections):
                a, b_ = str(s + 1), str(s + 2)
                comps.append([pat[0], "%s%da" % (pat[0], s), a, b_, vals_r[s % 4]])
                comps.append([pat[1], "%s%db" % (pat[1], s), b_, "0", vals_r[(s + 1) % 4] + (1 if pat[0] == pat[1] else 0)])
            pool.append(comps)
    # single elements and series/parallel pairs
    for k1, k2 in itertools.product("RLC", repeat=2):
        pool.append([["I", "Is", "0", "1", 1], [k1, "X1", "1", "2", 3], [k2, "X2", "2", "0", 5]])
        pool.append([["I", "Is", "0", "1", 1], [k1, "X1", "1", "0", 3], [k2, "X2", "1", "0", 5]])
    return pool


def build_circuit(desc):
    from CircuitCalculator.Circuit import components as ccp
    from CircuitCalculator.Circuit.circuit import Circuit
    comps = []
    for kind, cid, n1, n2, val in desc:
        if kind == "R":
            comps.append(ccp.resistor(cid, (n1, n2), R=float(val)))
        elif kind == "L":
            comps.append(ccp.inductance(cid, (n1, n2), L=float(val)))
        elif kind == "C":
            comps.append(ccp.capacitor(cid, (n1, n2), C=float(val)))
        elif kind == "V":
            comps.append(ccp.dc_voltage_source(cid, (n1, n2), V=float(val)))
        elif kind == "I":
            comps.append(ccp.dc_current_source(cid, (n1, n2), I=float(val)))
    comps.append(ccp.ground(nodes=("0",)))
    return Circuit(comps)


def circuit_netlist(desc, w):
    """Reference phasor netlist of the RLC description at rational angular frequency w."""
    from fractions import Fraction as F
    br = []
    wq = F(w) if not isinstance(w, float) else F(w).limit_denominator(10 ** 6)
    for kind, cid, n1, n2, val in desc:
        v = F(val)
        if kind == "R":
            br.append([n1, n2, "Z", cid, [[v, 0]]])
        elif kind == "L":
            br.append([n1, n2, "Z", cid, [[0, wq * v]]] if wq * v else [n1, n2, "short", cid, []])
        elif kind == "C":
            br.append([n1, n2, "Y", cid, [[0, wq * v]]] if wq * v else [n1, n2, "open", cid, []])
        elif kind == "V":
            br.append([n1, n2, "V" if wq == 0 else "short", cid, [v] if wq == 0 else []])
        elif kind == "I":
            br.append([n1, n2, "I" if wq == 0 else "open", cid, [v] if wq == 0 else []])
    return {"ref": "0", "branches": br}


SWEEPS = [SWEEP, list(reversed(SWEEP)), [2, 0, 1000, 0.5, 2, 10, 1]]   # ascending, descending, unordered with a repeated point


def run_circuit(i, tier, res):
    desc = circuit_pool(tier)[i]
    for sw in SWEEPS:
        judge_circuit(desc, sw, res)


def judge_circuit(desc, sweep, res):
    from CircuitCalculator.Circuit import impedance as cimp
    res["evals"] += 1
    circuit = build_circuit(desc)
    case = {"circuit": desc, "w": sweep}
    nodes = sorted({c[2] for c in desc} | {c[3] for c in desc})
    judged = False
    for a, b_ in itertools.permutations(nodes, 2):
        exact = []
        for w in sweep:
            nl = circuit_netlist(desc, w)
            exact.append(rn.port_impedance(nl, a, b_))
        if any(e is None or e == "inf" for e in exact):
            bump(res["skipped"], "sweep_contains_infinite_point")
            continue
        res["transitions"] += 1
        judged = True
        bump(res["hits"], "sweep_jwL_1_jwC")
        zsc = max([abs(complex(e)) for e in exact] + [1.0])
        try:
            z = cimp.open_circuit_impedance(circuit, a, b_, w=np.array(sweep, dtype=float))
            if len(z) != len(sweep):
                add_violation(res, "sweep_jwL_1_jwC", dict(case, port=[a, b_]), len(sweep), len(z), "sweep returns %d values for %d frequencies" % (len(z), len(sweep)))
                continue
            for w, zz, e in zip(sweep, z, exact):
                if not abs(complex(zz) - complex(e)) <= SWEEP_RTOL * zsc:
                    add_violation(res, "sweep_jwL_1_jwC", dict(case, port=[a, b_]), complex(e), complex(zz), "Z(%s,%s) at w=%s wrong" % (a, b_, w))
                res["fps"].add(fp(complex(zz)))
            bump(res["hits"], "dc_resistance")
            r0 = cimp.open_circuit_dc_resistance(circuit, a, b_)
            e0 = complex(exact[list(sweep).index(0)]).real
            if abs(r0 - e0) > SWEEP_RTOL * zsc:
                add_violation(res, "dc_resistance", dict(case, port=[a, b_]), e0, r0, "dc resistance wrong")
        except Exception as e:
            add_violation(res, "sweep_jwL_1_jwC", dict(case, port=[a, b_]), [complex(x) for x in exact], "%s: %s" % (type(e).__name__, e),
                          "impedance sweep raised", kind="exception:" + type(e).__name__)
    for comp in desc:
        exact = []
        for w in sweep:
            nl = circuit_netlist(desc, w)
            rest = {"ref": "0", "branches": [x for x in nl["branches"] if x[3] != comp[1]]}
            if comp[2] not in rn.nodes_of(rest) or comp[3] not in rn.nodes_of(rest):
                exact.append(None)
            else:
                exact.append(rn.port_impedance(rest, comp[2], comp[3]))
        if any(e is None or e == "inf" for e in exact):
            bump(res["skipped"], "element_sweep_contains_infinite_point")
            continue
        res["transitions"] += 1
        judged = True
        bump(res["hits"], "sweep_element_impedance")
        zsc = max([abs(complex(e)) for e in exact] + [1.0])
        try:
            z = cimp.element_impedance(circuit, comp[1], w=np.array(sweep, dtype=float))
            if len(z) != len(sweep):
                add_violation(res, "sweep_element_impedance", dict(case, element=comp[1]), len(sweep), len(z), "sweep returns %d values for %d frequencies" % (len(z), len(sweep)))
                continue
            for w, zz, e in zip(sweep, z, exact):
                if not abs(complex(zz) - complex(e)) <= SWEEP_RTOL * zsc:
                    add_violation(res, "sweep_element_impedance", dict(case, element=comp[1]), complex(e), complex(zz), "impedance seen by %s at w=%s wrong" % (comp[1], w))
            r0 = cimp.element_dc_resistance(circuit, comp[1])
            e0 = complex(exact[list(sweep).index(0)]).real
            if abs(r0 - e0) > SWEEP_RTOL * zsc:
                add_violation(res, "dc_resistance", dict(case, element=comp[1]), e0, r0, "element dc resistance wrong")
        except Exception as e:
            add_violation(res, "sweep_element_impedance", dict(case, element=comp[1]), [complex(x) for x in exact], "%s: %s" % (type(e).__name__, e),
                          "element impedance sweep raised", kind="exception:" + type(e).__name__)
    if judged:
        res["states"] += 1
        res["nontrivial"] += 1
        if len(res["samples"]) < 1:
            res["samples"].append({"circuit": desc, "sweep": sweep})


def vacuity(agg, tier):
    out = []
    for k in ("port_impedance_exact", "symmetry", "zero_cases", "element_impedance", "thevenin_load",
              "isc_is_voc_over_zth", "equivalent_source_objects", "sweep_jwL_1_jwC", "dc_resistance", "sweep_element_impedance"):
        if agg["hits"].get(k, 0) == 0:
            out.append("sub-check %s never fired" % k)
    if len(agg["fps"]) < 300:
        out.append("only %d distinct outcomes" % len(agg["fps"]))
    return out
