"""C12 - transient simulation solves the circuit's differential equations (shape S)."""
import itertools
import math
from fractions import Fraction as F
import numpy as np

from mc import space as sp
from mc import adapt
from mc.ref import netlist as rn
from mc.ref import circuit as rc
from mc.ref import dynamics as rd
from mc.runner import new_result, bump, fp, add_violation
from . import dyn
from . import c10

ID = "C12"
LEVEL = "model_checking"
RULE = ("every non-degenerate (exact) RLC + ideal-source circuit of the listed levels (<= 2 reactive elements quick, <= 3 "
        "thorough; <= 2 sources; plus ladders with up to 4 (thorough 6) states) x orientation patterns x id schemes, simulated by the real TransientSolution for every "
        "combination of input shapes {zero, one-sample step, ramp, triangle, constant} over its sources (all combinations at "
        "the small levels, singles plus four mixed pairs at the larger) on a uniform grid h = tau_min/20 (and /50 thorough); "
        "every node and element is queried at every sample; plus one settling run with constant inputs and one with a "
        "sinusoidal input per circuit; states = distinct (circuit, grid), transitions = simulations judged; "
        "non-trivial = simulation with a non-zero state trajectory"
        ' Additions: per circuit a triple of simulations (grid t; grid 2t with C and L doubled; grid t + 37h with shifted inputs, time array untouched); zero-nominal voltage sources; small-signal variant; node names that are element ids.')
ASSUMPTIONS = ["mpmath.expm at 30 digits gives the exact zero-order/first-order-hold propagator", "the model (A,B,C,D) is first identified with the exact transfer function at 10 frequencies inside this check",
               "sampled sinusoids are treated as piecewise linear, so the periodic steady state is compared with tolerance 1e-3"]
EXPLANATION = "direct exploration of the real TransientSolution against the exact piecewise-linear response of the identified model and sample-wise circuit laws"

SHAPES = ["zero", "step", "ramp", "triangle", "constant"]


def budget_s(tier):
    return 1500 if tier == "quick" else 7200


def levels(tier):
    if tier == "quick":
        return [(2, 2, 2, "allorient", "perm", "all"), (2, 3, 3, "allorient", "three", "all"), (2, 4, 2, "two", "three", "some"), (3, 3, 3, "allorient", "three", "some"), (3, 4, 2, "two", "two", "some"),
                (3, 5, "twin", "two", "three", "some")]
    return [(2, 2, 2, "allorient", "perm", "all"), (2, 3, 3, "allorient", "three", "all"), (2, 4, 3, "allorient", "three", "some"), (3, 3, 3, "allorient", "three", "all"),
            (3, 4, 3, "two", "three", "some"), (4, 4, 2, "two", "two", "some"), (3, 5, "twin", "allorient", "three", "some"), (4, 5, "twin", "two", "three", "some")]


def kinds_for(b, max_reactive):
    if max_reactive == "twin":
        return dyn.kind_tuples(b, "twin")
    return [kt for kt in itertools.product(dyn.DK, repeat=b) if dyn.admissible(kt, max_reactive=max_reactive)]


def shards(tier):
    out = []
    for (n, b, mr, om, im, cm_) in levels(tier):
        topos = sp.topologies(n, b)
        allk = kinds_for(b, mr)
        for ti in range(len(topos)):
            for ch in sp.chunks(range(len(allk)), 2 if om == "allorient" else 4):
                out.append(("RLC(%d,%d)|%s|%s|inputs:%s" % (n, b, om, im, cm_), (n, b, mr, ti, ch[0], ch[-1] + 1, om, im, cm_, tier)))
    for li in range(len(dyn.LADDERS)):
        for nsec in range(1, (3 if tier == "thorough" else 2) + 1):
            out.append(("ladders (up to %d states)" % (6 if tier == "thorough" else 4), ("lad", li, nsec, tier)))
    return out


def run_shard(desc):
    res = new_result()
    if desc[0] == "lad":
        src, ser, shu = dyn.LADDERS[desc[1]]
        for scheme in ("asc", "desc", "mix"):
            for flip in (False, True):
                d = dyn.ladder(src, ser, shu, desc[2], scheme, flip, desc[2] % 2)
                res["evals"] += 1
                ok, why = rd.non_degenerate(d)
                if not ok:
                    bump(res["skipped"], why)
                    continue
                judge_circuit(d, "some", desc[3], res, ladder=True)
        return res
    n, b, mr, ti, k0, k1, om, im, cm_, tier = desc
    topo = sp.topologies(n, b)[ti]
    allk = kinds_for(b, mr)
    idl = c10.id_lists(b, im)
    orients = list(range(2 ** b)) if om == "allorient" else [0b01011 & (2 ** b - 1), 0b10110 & (2 ** b - 1)]
    for kt in allk[k0:k1]:
        ok, why = dyn.class_non_degenerate(topo, kt)
        res["evals"] += len(orients) * len(idl)
        if not ok:
            bump(res["skipped"], why, len(orients) * len(idl))
            continue
        for orient in orients:
            for ii, ids in enumerate(idl):
                d = dyn.build(topo, kt, orient, ids, (orient + ii) % n, labels=(dyn.LABELS_LIKE_IDS[:n] if ii % 2 else None))
                judge_circuit(d, cm_, tier, res)
                if orient == orients[0]:
                    # a voltage source whose nominal value is 0 V is a model source like any other: its waveform comes from `input`
                    d0 = zero_nominal(d)
                    if d0 is not None:
                        res["evals"] += 1
                        bump(res["hits"], "zero_nominal_voltage_source")
                        judge_circuit(d0, cm_, tier, res)
                if orient == orients[-1] and ii == 0:
                    # nanovolt / nanoampere waveforms: every judgement is relative to the amplitudes, nothing is "practically zero"
                    res["evals"] += 1
                    bump(res["hits"], "small_signal")
                    judge_circuit(small_signal(d), cm_, tier, res)
    return res


def replay(case):
    res = new_result()
    # the whole circuit is re-judged (every input combination and the settling runs), so that a violation found in a
    # settling run or under another combination mode reproduces
    judge_circuit(case["circuit"], "all", "quick", res, ladder=len(case["circuit"]["components"]) > 6)
    return res["violations"]


def with_nominal(d, amps):
    """the same description with each source's nominal value set to the constant it is driven with"""
    out = []
    for c in d["components"]:
        v = dict(c[3])
        if c[0] == "dc_voltage_source":
            v["V"] = amps[c[1]]
        if c[0] == "dc_current_source":
            v["I"] = amps[c[1]]
        out.append([c[0], c[1], list(c[2]), v])
    return {"components": out}


def zero_nominal(d):
    """the same description with the nominal value of the first voltage source set to zero (its waveform is given anyway), or None"""
    out, done = [], False
    for c in d["components"]:
        v = dict(c[3])
        if c[0] == "dc_voltage_source" and not done:
            v["V"] = 0
            done = True
        out.append([c[0], c[1], list(c[2]), v])
    return {"components": out} if done else None


def small_signal(d):
    """the same description with every source's nominal value (= the amplitude of its waveforms here) scaled by 1e-9"""
    from fractions import Fraction as F_
    out = []
    for c in d["components"]:
        v = dict(c[3])
        for key in (("V",) if c[0] == "dc_voltage_source" else ("I",) if c[0] == "dc_current_source" else ()):
            v[key] = str(F_(v[key]) / 10 ** 9)
        out.append([c[0], c[1], list(c[2]), v])
    return {"components": out}


def time_scaled(d, k):
    """the same description with every capacitance and inductance multiplied by k (exactly)"""
    from fractions import Fraction as F_
    out = []
    for c in d["components"]:
        v = dict(c[3])
        for key in (("C",) if c[0] == "capacitor" else ("L",) if c[0] == "inductance" else ()):
            x = v[key]
            v[key] = str(F_(x) * k) if isinstance(x, (str, int)) else x * k
        out.append([c[0], c[1], list(c[2]), v])
    return {"components": out}


def shape_fn(name, t_end, amp):
    def f(t):
        t = np.asarray(t, dtype=float)
        x = t / t_end
        if name == "zero":
            return np.zeros_like(t)
        if name == "constant":
            return amp * np.ones_like(t)
        if name == "step":
            return amp * np.where(x > 0.25, 1.0, 0.0)
        if name == "ramp":
            return amp * np.clip(x, 0, 1)
        if name == "triangle":
            return amp * np.where(x < 0.5, 2 * x, np.where(x < 1, 2 - 2 * x, 0.0))
        raise ValueError(name)
    return f


def propagator(A, B, h):
    """exact first-order-hold propagator (Ad, G0, G1): x[k+1] = Ad x[k] + G0 u[k] + G1 u[k+1]"""
    import mpmath as mp
    mp.mp.dps = 30
    n, m = A.shape[0], B.shape[1]
    M = mp.zeros(n + 2 * m)
    for i in range(n):
        for j in range(n):
            M[i, j] = mp.mpf(float(A[i, j])) * h
        for j in range(m):
            M[i, n + j] = mp.mpf(float(B[i, j])) * h
    for j in range(m):
        M[n + j, n + m + j] = 1
    E = mp.expm(M)
    Ad = np.array([[float(E[i, j]) for j in range(n)] for i in range(n)])
    G1f = np.array([[float(E[i, n + j]) for j in range(m)] for i in range(n)])
    G2 = np.array([[float(E[i, n + m + j]) for j in range(m)] for i in range(n)])
    return Ad, G1f - G2, G2


def simulate_exact(prop, U):
    Ad, G0, G1 = prop
    n = Ad.shape[0]
    X = np.zeros((n, U.shape[1]))
    for k in range(U.shape[1] - 1):
        X[:, k + 1] = Ad @ X[:, k] + G0 @ U[:, k] + G1 @ U[:, k + 1]
    return X


def judge_circuit(d, combos_mode, tier, res, only=None, only_div=None, ladder=False):
    from CircuitCalculator.Circuit.solution import TransientSolution, DCSolution
    caps, inds = rd.reactive(d)
    srcs = rd.sources(d)
    comps = [c for c in d["components"] if c[0] != "ground"]
    ids = [c[1] for c in comps]
    nodes = sorted({n for c in comps for n in c[2]})
    case0 = {"circuit": d}
    # ---- identify the model with the exact transfer function (same oracle as C10)
    tmp = new_result()
    c10.judge(d, tmp, wpal=dyn.W_PALETTE_LONG if ladder else None)
    if tmp["violations"]:
        v = tmp["violations"][0]
        add_violation(res, "exact_pwl_response", case0, v["expected"], v["observed"], "model is not a realisation of the circuit (%s): %s" % (v["subcheck"], v["msg"]), kind="model_wrong")
        return
    try:
        circ, ssm = dyn.library_models(d)
        A, B = np.asarray(ssm.A, float), np.asarray(ssm.B, float)
        pub = list(ssm.sources)
        ev = np.linalg.eigvals(A)
    except Exception as e:
        add_violation(res, "exact_pwl_response", case0, "model", "%s: %s" % (type(e).__name__, e), "raised", kind="exception:" + type(e).__name__)
        return
    rate = max(np.abs(ev).max(), 1e-9)
    slow = max(min(abs(x.real) for x in ev), 1e-12) if len(ev) else rate
    rows_c = {}
    rows_d = {}
    for nd in nodes:
        rows_c[("p", nd)] = np.asarray(ssm.c_row_for_potential(nd), float).reshape(-1)
        rows_d[("p", nd)] = np.asarray(ssm.d_row_for_potential(nd), float).reshape(-1)
    for i in ids:
        rows_c[("v", i)] = np.asarray(ssm.c_row_voltage(i), float).reshape(-1)
        rows_d[("v", i)] = np.asarray(ssm.d_row_voltage(i), float).reshape(-1)
        rows_c[("i", i)] = np.asarray(ssm.c_row_current(i), float).reshape(-1)
        rows_d[("i", i)] = np.asarray(ssm.d_row_current(i), float).reshape(-1)
    # the waveform amplitude is the nominal value; a source whose nominal (DC) value is zero is driven with 3/2
    amps = {s[1]: (rc.fl(s[3]["V"] if s[0] == "dc_voltage_source" else s[3]["I"]) or 1.5) for s in srcs}
    src_ids = [s[1] for s in srcs]
    if len(srcs) == 1:
        combos = [(s,) for s in SHAPES[1:]]
    elif combos_mode == "all":
        combos = [c for c in itertools.product(SHAPES, repeat=len(srcs)) if any(x != "zero" for x in c)]
    else:
        combos = [(s, "zero") for s in SHAPES[1:]] + [("zero", s) for s in SHAPES[1:]] + [("step", "ramp"), ("ramp", "triangle"), ("triangle", "constant"), ("constant", "step")]
    divs = [20] if tier == "quick" else [20, 50]
    if only_div:
        divs = [only_div]
    for div in divs:
        h = 1 / (div * rate)
        nsamp = int(min(1500, max(120, math.ceil(10 / max(slow, rate / 75) / h))))
        nsamp -= nsamp % 8
        t = np.arange(nsamp + 1) * h
        t_end = t[nsamp // 2]
        prop = propagator(A, B, h)
        res["states"] += 1
        for combo in combos:
            if only is not None and list(combo) != list(only):
                continue
            case = {"circuit": d, "inputs": list(combo), "div": div}
            fns = {sid: shape_fn(sh, t_end, amps[sid]) for sid, sh in zip(src_ids, combo)}
            U = np.array([fns[sid](t) for sid in pub])
            try:
                sol = TransientSolution(circuit=circ, tin=t, input=fns)
                # powers are asked for FIRST and handed to the caller (who may do with them what it likes): every later query
                # on the same solution object must be unaffected
                powers = {}
                for i in ids:
                    tp_, p_ = sol.get_power(i)
                    powers[i] = np.array(p_, dtype=float)
                    try:
                        np.asarray(p_)[...] = 0.0
                    except (ValueError, TypeError):
                        pass
                Y = {}
                for nd in nodes:
                    Y[("p", nd)] = np.asarray(sol.get_potential(nd)[1], float)
                for i in ids:
                    Y[("v", i)] = np.asarray(sol.get_voltage(i)[1], float)
                    Y[("i", i)] = np.asarray(sol.get_current(i)[1], float)
                tout = np.asarray(sol.t, float)
            except Exception as e:
                add_violation(res, "exact_pwl_response", case, "a simulation", "%s: %s" % (type(e).__name__, e), "TransientSolution raised", kind="exception:" + type(e).__name__)
                continue
            res["transitions"] += 1
            X = simulate_exact(prop, U)
            if np.abs(X).max() > 0:
                res["nontrivial"] += 1
            sv = max([1e-300] + [np.abs(Y[k]).max() for k in Y if k[0] != "i"] + [abs(amps[s[1]]) for s in srcs if s[0] == "dc_voltage_source"])
            si = max([1e-300] + [np.abs(Y[k]).max() for k in Y if k[0] == "i"] + [abs(amps[s[1]]) for s in srcs if s[0] == "dc_current_source"])
            rmax = max(rc.fl(c[3]["R"]) for c in comps if c[0] == "resistor") if any(c[0] == "resistor" for c in comps) else 1.0
            rmin = min(rc.fl(c[3]["R"]) for c in comps if c[0] == "resistor") if any(c[0] == "resistor" for c in comps) else 1.0
            sv = max(sv, si * rmax)
            si = max(si, sv / rmin)
            res["fps"].add(fp(*[float(Y[k][nsamp // 3]) for k in list(Y)[:4]]))
            if len(res["samples"]) < 1:
                res["samples"].append({"circuit": d, "inputs": list(combo), "h": h, "samples": nsamp + 1})
            bad = False
            if len(tout) != len(t) or np.abs(tout - t).max() > 1e-12 * t[-1]:
                add_violation(res, "exact_pwl_response", case, "output grid = input grid", [len(tout), len(t)], "time axis changed")
                continue
            bump(res["hits"], "power_then_queries")
            for i in ids:
                pv = Y[("v", i)] * Y[("i", i)]
                if np.abs(powers[i] - pv).max() > 1e-8 * max(sv * si, 1e-300):
                    add_violation(res, "exact_pwl_response", dict(case, element=i), "p = v*i", float(np.abs(powers[i] - pv).max()),
                                  "power of %s reported before the other queries is not the product of the voltage and current reported afterwards" % i)
                    bad = True
                    break
            # (a) starts from rest
            bump(res["hits"], "starts_from_rest")
            for c in caps:
                if abs(Y[("v", c[1])][0]) > 1e-12 * sv:
                    add_violation(res, "starts_from_rest", case, 0, float(Y[("v", c[1])][0]), "capacitor %s is charged at t=0" % c[1])
                    bad = True
            for l in inds:
                if abs(Y[("i", l[1])][0]) > 1e-12 * si:
                    add_violation(res, "starts_from_rest", case, 0, float(Y[("i", l[1])][0]), "inductor %s carries current at t=0" % l[1])
                    bad = True
            # (b) exact response of the identified model
            bump(res["hits"], "exact_pwl_response")
            for key in Y:
                exp = rows_c[key] @ X + rows_d[key] @ U
                sc = si if key[0] == "i" else sv
                err = np.abs(Y[key] - exp)
                if err.max() > 1e-8 * sc:
                    k = int(np.argmax(err))
                    add_violation(res, "exact_pwl_response", dict(case, sample=k, output=list(key)), float(exp[k]), float(Y[key][k]),
                                  "%s of %s differs from the exact piecewise-linear response at sample %d" % ({"p": "potential", "v": "voltage", "i": "current"}[key[0]], key[1], k))
                    bad = True
                    break
            # (a) sample-wise circuit laws on the reported numbers
            bump(res["hits"], "kcl_every_sample")
            for nd in nodes:
                s = np.zeros(len(t))
                for c in comps:
                    if c[2][0] == nd:
                        s = s + Y[("i", c[1])]
                    if c[2][1] == nd:
                        s = s - Y[("i", c[1])]
                if np.abs(s).max() > 1e-8 * si * len(comps):
                    add_violation(res, "kcl_every_sample", dict(case, node=nd, sample=int(np.argmax(np.abs(s)))), 0, float(np.abs(s).max()), "currents do not balance at node %s" % nd)
                    bad = True
                    break
            bump(res["hits"], "algebraic_laws_every_sample")
            gnd = rc.ground_node(d)
            if np.abs(Y[("p", gnd)]).max() > 0:
                add_violation(res, "algebraic_laws_every_sample", case, 0, float(np.abs(Y[("p", gnd)]).max()), "ground potential not zero")
            for c in comps:
                v, i = Y[("v", c[1])], Y[("i", c[1])]
                if np.abs(v - (Y[("p", c[2][0])] - Y[("p", c[2][1])])).max() > 1e-8 * sv:
                    add_violation(res, "algebraic_laws_every_sample", dict(case, element=c[1]), "phi1-phi2", "differs", "voltage of %s is not the potential difference" % c[1])
                    bad = True
                if c[0] == "resistor" and np.abs(v - rc.fl(c[3]["R"]) * i).max() > 1e-8 * sv:
                    add_violation(res, "algebraic_laws_every_sample", dict(case, element=c[1]), "v = R i", float(np.abs(v - rc.fl(c[3]["R"]) * i).max()), "Ohm's law violated on %s" % c[1])
                    bad = True
                if c[0] == "dc_voltage_source" and np.abs(v - fns[c[1]](t)).max() > 1e-8 * sv:
                    add_violation(res, "algebraic_laws_every_sample", dict(case, element=c[1]), "v = input", float(np.abs(v - fns[c[1]](t)).max()), "voltage source %s does not carry its input waveform" % c[1])
                    bad = True
                if c[0] == "dc_current_source" and np.abs(i - fns[c[1]](t)).max() > 1e-8 * si:
                    add_violation(res, "algebraic_laws_every_sample", dict(case, element=c[1]), "i = input", float(np.abs(i - fns[c[1]](t)).max()), "current source %s does not carry its input waveform" % c[1])
                    bad = True
            # (c) integrated capacitor / inductor laws (Simpson over pairs of steps)
            bump(res["hits"], "integral_laws")
            for c in caps + inds:
                if c[0] == "capacitor":
                    q, f_, coef, sc = Y[("v", c[1])], Y[("i", c[1])], rc.fl(c[3]["C"]), si
                else:
                    q, f_, coef, sc = Y[("i", c[1])], Y[("v", c[1])], rc.fl(c[3]["L"]), sv
                lhs = coef * (q[2::2] - q[:-2:2])
                rhs = h / 3 * (f_[:-2:2] + 4 * f_[1:-1:2] + f_[2::2])
                # Simpson is exact to O(h^5 f'''') on smooth pieces; input kinks sit on even samples except
                # for the step edge, which is excluded below
                err = np.abs(lhs - rhs)
                mask = np.ones(len(err), bool)
                for sid, sh in zip(src_ids, combo):
                    if sh == "step":
                        kk = int(np.searchsorted(t, 0.25 * t_end, side="right"))
                        for j in (kk // 2 - 1, kk // 2, kk // 2 + 1):
                            if 0 <= j < len(mask):
                                mask[j] = False
                if mask.any() and err[mask].max() > 2e-4 * sc * h * 2:
                    k = int(np.argmax(np.where(mask, err, 0)))
                    add_violation(res, "integral_laws", dict(case, element=c[1], sample=2 * k), float(rhs[k]), float(lhs[k]),
                                  "%s: %s*delta(%s) is not the integral of its %s" % (c[1], "C" if c[0] == "capacitor" else "L", "v" if c[0] == "capacitor" else "i", "current" if c[0] == "capacitor" else "voltage"))
                    bad = True
        # ---- time scaling: the same circuit with every C and L doubled, on the grid 2t with inputs u(t/2), has sample for
        # sample the same response (a second simulation in the same process that differs in the reactive values only)
        if div == divs[0] and only is None and combos:
            combo = combos[-1]
            case = {"circuit": d, "inputs": list(combo), "div": div, "time_scaled_by": 2}
            bump(res["hits"], "time_scaling")
            try:
                d2 = time_scaled(d, 2)
                circ2 = adapt.circuit(d2)
                f1 = {sid: shape_fn(sh, t_end, amps[sid]) for sid, sh in zip(src_ids, combo)}
                f2 = {sid: shape_fn(sh, 2 * t_end, amps[sid]) for sid, sh in zip(src_ids, combo)}
                s1 = TransientSolution(circuit=adapt.circuit(d), tin=t, input=f1)
                s2 = TransientSolution(circuit=circ2, tin=2 * t, input=f2)
                # time shift: the same circuit on the grid t + t0 (a float array that does not start at 0) with inputs u(t - t0)
                t0 = 37 * h
                t_sh = t + t0
                t_sh_before = t_sh.copy()
                # (instants are mapped back to the exact grid values k*h, so that rounding in (t + t0) - t0 cannot move a step edge)
                f3 = {sid: (lambda tt, g=g, t0=t0: g(np.rint((np.asarray(tt, float) - t0) / h) * h)) for sid, g in f1.items()}
                s3 = TransientSolution(circuit=adapt.circuit(d), tin=t_sh, input=f3)
                if not np.array_equal(t_sh, t_sh_before):
                    add_violation(res, "exact_pwl_response", dict(case, time_shift=float(t0)), "time axis left as given", float(np.abs(t_sh - t_sh_before).max()), "the simulation changed the time array it was given")
                    raise StopIteration
                if np.abs(np.asarray(s3.t, float) - t_sh_before).max() > 1e-9 * t_sh_before[-1]:
                    add_violation(res, "exact_pwl_response", dict(case, time_shift=float(t0)), "output instants = given instants", float(np.abs(np.asarray(s3.t, float) - t_sh_before).max()), "reported instants are not the given ones on a grid that does not start at 0")
                    raise StopIteration
                for kind, names in (("get_potential", nodes), ("get_voltage", ids), ("get_current", ids)):
                    for nm in names:
                        y1 = np.asarray(getattr(s1, kind)(nm)[1], float)
                        y2 = np.asarray(getattr(s2, kind)(nm)[1], float)
                        y3 = np.asarray(getattr(s3, kind)(nm)[1], float)
                        if y3.shape != y1.shape or np.abs(y1 - y3).max() > 1e-7 * max([np.abs(np.asarray(getattr(s1, kind)(x)[1], float)).max() for x in names] + [np.abs(y1).max(), 1e-300]):
                            add_violation(res, "exact_pwl_response", dict(case, output=[kind, nm], time_shift=float(t0)), float(np.abs(y1).max()), float(np.abs(y1 - y3).max()) if y3.shape == y1.shape else list(y3.shape),
                                          "%s(%s): the response on the grid t + t0 to inputs u(t - t0) is not the response on the grid t" % (kind, nm))
                            raise StopIteration
                        sc = max(np.abs(y1).max(), np.abs(y2).max(), 1e-300)
                        ref_sc = max([np.abs(np.asarray(getattr(s1, kind)(x)[1], float)).max() for x in names] + [1e-300])
                        if np.abs(y1 - y2).max() > 1e-7 * max(sc, ref_sc):
                            k = int(np.argmax(np.abs(y1 - y2)))
                            add_violation(res, "exact_pwl_response", dict(case, output=[kind, nm], sample=k), float(y1[k]), float(y2[k]),
                                          "%s(%s): the circuit with all C and L doubled does not respond like the original on the doubled time axis" % (kind, nm))
                            raise StopIteration
            except StopIteration:
                pass
            except Exception as e:
                add_violation(res, "exact_pwl_response", case, "a simulation", "%s: %s" % (type(e).__name__, e), "time-scaled simulation raised", kind="exception:" + type(e).__name__)
        if only is not None:
            continue
        # ---- (d) settling runs (only for strictly stable circuits)
        if div != divs[0]:
            continue
        if ev.real.max() < -1e-9 * rate:
            decay = min(abs(x.real) for x in ev)
            ns = int(math.ceil(30 / decay / h))
            if ns <= 6000:
                case = {"circuit": d, "inputs": ["constant"] * len(srcs), "settle": True, "div": div}
                ts = np.arange(ns + 1) * h
                fns = {sid: shape_fn("constant", 1.0, amps[sid]) for sid in src_ids}
                try:
                    sol = TransientSolution(circuit=circ, tin=ts, input=fns)
                    dc = DCSolution(circuit=adapt.circuit(with_nominal(d, amps)))
                    res["transitions"] += 1
                    bump(res["hits"], "settles_to_dc")
                    sv = max([1e-300] + [abs(dc.get_potential(nd)) for nd in nodes] + [abs(a) for a in amps.values()])
                    for nd in nodes:
                        y = sol.get_potential(nd)[1][-1]
                        if abs(y - dc.get_potential(nd)) > 1e-7 * sv:
                            add_violation(res, "settles_to_dc", dict(case, node=nd), float(dc.get_potential(nd)), float(y), "potential of %s does not settle to the DC solution" % nd)
                            break
                    si = max([1e-300] + [abs(dc.get_current(i)) for i in ids] + [abs(a) for a in amps.values()])
                    for i in ids:
                        y = sol.get_current(i)[1][-1]
                        if abs(y - dc.get_current(i)) > 1e-7 * max(si, sv):
                            add_violation(res, "settles_to_dc", dict(case, element=i), float(dc.get_current(i)), float(y), "current of %s does not settle to the DC solution" % i)
                            break
                except Exception as e:
                    add_violation(res, "settles_to_dc", case, "settling run", "%s: %s" % (type(e).__name__, e), "raised", kind="exception:" + type(e).__name__)
                # sinusoidal input on the first published source
                w = F(int(round(rate * 100 / 5)), 100) if rate >= 0.05 else F(1, 100)
                r = dyn.float_response(d, w, pub[0])
                if r is not None and float(w) * h < 0.02:
                    phi, cur, nl = r
                    a0 = amps[pub[0]]
                    fns = {sid: shape_fn("zero", 1.0, 0.0) for sid in src_ids}
                    fns[pub[0]] = (lambda tt, a0=a0, w=float(w): a0 * np.cos(w * np.asarray(tt, float)))
                    case = {"circuit": d, "inputs": ["cos(%s t)" % w], "settle": True, "div": div}
                    try:
                        sol = TransientSolution(circuit=circ, tin=ts, input=fns)
                        res["transitions"] += 1
                        bump(res["hits"], "settles_to_periodic_steady_state")
                        tail = slice(-40, None)
                        sv = max([abs(a0)] + [abs(a0 * v) for v in phi.values()])
                        for nd in nodes:
                            X_ = a0 * phi[nd]
                            exp = abs(X_) * np.cos(float(w) * ts[tail] + np.angle(X_))
                            y = np.asarray(sol.get_potential(nd)[1], float)[tail]
                            if np.abs(y - exp).max() > 2e-3 * sv:
                                add_violation(res, "settles_to_periodic_steady_state", dict(case, node=nd), exp[:3].tolist(), y[:3].tolist(), "potential of %s does not settle to the phasor steady state" % nd)
                                break
                    except Exception as e:
                        add_violation(res, "settles_to_periodic_steady_state", case, "settling run", "%s: %s" % (type(e).__name__, e), "raised", kind="exception:" + type(e).__name__)
            else:
                bump(res["skipped"], "settling_run_too_long")
        else:
            bump(res["skipped"], "settling:not_strictly_stable")


def vacuity(agg, tier):
    out = []
    for k in ("starts_from_rest", "exact_pwl_response", "kcl_every_sample", "algebraic_laws_every_sample", "integral_laws", "settles_to_dc", "settles_to_periodic_steady_state"):
        if agg["hits"].get(k, 0) == 0:
            out.append("sub-check %s never fired" % k)
    return out
