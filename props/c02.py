"""C02 - DC/AC phasor analysis of component circuits is exact at every frequency (shape S)."""
import itertools
import math
from fractions import Fraction as F

from mc import space as sp
from mc import adapt
from mc.ref import netlist as rn
from mc.ref import circuit as rc
from mc.runner import new_result, bump, fp, add_violation
from . import common as cm

ID = "C02"
LEVEL = "model_checking"
RULE = ("every connected labelled multigraph topology of the listed levels x assignment of component kinds (plus ladder circuits of 2..5 (thorough 8) sections over seven source/series/shunt patterns with every ground position; passive "
        "kinds and dc/ac sources, ideal and lossy) x orientation, values from the prime palette by branch position, "
        "analysed at every frequency of an alphabet placed around the source frequencies (0, on a source frequency, "
        "+-res/2, +-2res, 2x, unrelated) with both resolutions, as peak and RMS phasors and as DC solution; judged when "
        "the phasor network at that frequency is well-posed (exact determinant per class); states = distinct "
        "(circuit, w, resolution), transitions = library analyses judged; non-trivial = non-zero solution"
        ' Additions: sinusoidal sources with own frequency 0, microvolt / 0.1 uA sources, physical-unit kinds; the RMS object is asked again in the opposite order; the same circuit given with NumPy-scalar / int numbers and frequency.')
ASSUMPTIONS = ["numpy.linalg accuracy on the palettes", "float cos/sin within 1 ulp", "ComplexSolution is constructed with the default frequency resolution 1e-3 (it offers no other)"]
EXPLANATION = "direct exploration of ComplexSolution / DCSolution against an exact-rational phasor reference"

# component kind table: name -> (component kind, params builder from prime value v)
KTAB = {
    "R": lambda v: ("resistor", {"R": v}),
    "C": lambda v: ("capacitor", {"C": F(1, v)}),
    "L": lambda v: ("inductance", {"L": F(v, 2)}),
    "Z": lambda v: ("impedance", {"Z": [v, v + 1]}),
    "G": lambda v: ("conductance", {"G": F(1, v)}),
    "Y": lambda v: ("admittance", {"Y": [F(1, v), F(-1, v + 2)]}),
    "lamp": lambda v: ("lamp", {"P": v, "V_ref": 6}),
    "load": lambda v: ("resistive_load", {"P": v, "V_ref": 4}),
    "Vdc": lambda v: ("dc_voltage_source", {"V": F(v, 2)}),
    "Vdcl": lambda v: ("dc_voltage_source", {"V": -v, "R": v + 1}),
    "Vac": lambda v: ("ac_voltage_source", {"V": F(5, 2), "w": 1, "phi": "a34"}),
    "Vacl": lambda v: ("ac_voltage_source", {"V": -2, "w": 2, "phi": "-pi/2", "R": v}),
    "Iac": lambda v: ("ac_current_source", {"I": v, "w": 1, "phi": "-pi/2"}),
    "Iacl": lambda v: ("ac_current_source", {"I": 1, "w": 2, "phi": "a43", "G": F(1, v)}),
    "Idc": lambda v: ("dc_current_source", {"I": F(v, 3)}),
    "Idcl": lambda v: ("dc_current_source", {"I": -1, "G": F(1, v)}),
    "Vach": lambda v: ("ac_voltage_source", {"V": 3, "w": 2000, "phi": "a43"}),
    "Iach": lambda v: ("ac_current_source", {"I": 2, "w": 2000, "phi": "pi", "G": F(1, v)}),
    # bench values in SI units: kilo-ohms, nanofarads, millihenries, a megahertz-range source
    "Rk": lambda v: ("resistor", {"R": 4700 + v}),
    "Cn": lambda v: ("capacitor", {"C": F(v, 10 ** 8)}),
    "Lm": lambda v: ("inductance", {"L": F(v, 1000)}),
    "Vhf": lambda v: ("ac_voltage_source", {"V": 5, "w": 1000000, "phi": "a34", "R": 50}),
    # sinusoidal sources whose own frequency is 0 (the constructor default): A*cos(phi) in the DC analysis, A*exp(j*phi) at w = 0
    "Vac0": lambda v: ("ac_voltage_source", {"V": F(5, 2), "w": 0, "phi": "a34"}),
    "Iac0": lambda v: ("ac_current_source", {"I": -2, "w": 0, "phi": "a43", "G": F(1, v)}),
    # small-signal sources (microvolts, a tenth of a microampere): powers of 1e-12 W and below
    "Vdcs": lambda v: ("dc_voltage_source", {"V": F(v, 10 ** 6)}),
    "Iacs": lambda v: ("ac_current_source", {"I": F(1, 10 ** 7), "w": 1, "phi": "a34"}),
    "Vc": lambda v: ("complex_voltage_source", {"V": [1, v], "Z": [0, 0]}),
    "Ic": lambda v: ("complex_current_source", {"I": [v, -1], "Y": [F(1, v), 0]}),
}
K12 = ("R", "C", "L", "Z", "G", "lamp", "Vdc", "Vac", "Vacl", "Iac", "Idcl", "Vach")
KPHYS = ("Rk", "Cn", "Lm", "Vhf", "Idc", "R")
K_ALL = tuple(KTAB)
K5 = ("R", "C", "L", "Vac", "Idc")
K4 = ("R", "C", "Vach", "Iac")
RES_DEFAULT = F(1, 1000)


def budget_s(tier):
    return 3600 if tier == "quick" else 10800


LEVELS_QUICK = [(2, 1, K_ALL), (2, 2, K_ALL), (3, 2, K_ALL), (2, 3, K12), (3, 3, K12), (3, 4, K4), (2, 3, KPHYS), (3, 3, KPHYS)]
LEVELS_THOROUGH = [(2, 1, K_ALL), (2, 2, K_ALL), (3, 2, K_ALL), (2, 3, K_ALL), (3, 3, K_ALL), (3, 4, K5 + ("Vacl", "G")), (4, 3, K12), (4, 4, K5), (3, 4, KPHYS)]


SRC_W = {"Vdcs": 0, "Iacs": 1, "Vac0": 0, "Iac0": 0, "Vhf": 1000000, "Vdc": 0, "Vdcl": 0, "Idc": 0, "Idcl": 0, "Vac": 1, "Iac": 1, "Vacl": 2, "Iacl": 2, "Vach": 2000, "Iach": 2000}


def freq_alphabet(kt=None):
    """analysis frequencies placed relative to the source frequencies present in the circuit: on the frequency,
    just inside (+-res/2, +-0.99 res), just outside (+-1.01 res, +-2 res), twice it; plus 0, an unrelated and a large one"""
    r = RES_DEFAULT
    ws = sorted({F(SRC_W[k]) for k in (kt if kt is not None else SRC_W) if k in SRC_W})
    out = [F(0), F(7, 3), F(1000)]
    for w in ws:
        for x in (w, w + r / 2, w - r / 2, w + r * F(99, 100), w - r * F(99, 100), w + r * F(101, 100), w - r * F(101, 100), w + 2 * r, w - 2 * r, 2 * w):
            if x >= 0 and x not in out:
                out.append(x)
    return sorted(out)


def shards(tier):
    out = []
    for (n, b, kinds) in (LEVELS_QUICK if tier == "quick" else LEVELS_THOROUGH):
        topos = sp.topologies(n, b)
        nk = len(kinds) ** b
        per = max(1, 600 // (2 ** b * 16))
        for ti in range(len(topos)):
            for ch in sp.chunks(range(nk), per):
                out.append(("Cq(%d,%d)|K%d" % (n, b, len(kinds)), (n, b, ti, kinds, ch[0], ch[-1] + 1)))
    for fi in range(len(FAMILIES)):
        for nsec in range(2, (8 if tier == "thorough" else 5) + 1):
            out.append(("ladder families (up to %d sections)" % (8 if tier == "thorough" else 5), ("fam", fi, nsec, tier)))
    return out


def build_circuit(topo, kt, orient, n, ground_mode):
    labels = sp.LABELS_PLAIN[:n] if ground_mode != "odd" else sp.LABELS_ODD[:n]
    comps = []
    for k, ((i, j), kn) in enumerate(zip(topo, kt)):
        a, b_ = (labels[j], labels[i]) if (orient >> k) & 1 else (labels[i], labels[j])
        ckind, params = KTAB[kn](sp.P_REAL[k])
        # ids ascend with the listing position for even-parity orientation masks and descend for odd ones, so that listing order
        # and alphabetical order of the sources disagree in half the cases
        cid = sp.IDS_ASC[k] if bin(orient).count("1") % 2 == 0 else sp.IDS_ASC[len(topo) - 1 - k]
        comps.append([ckind, cid, [a, b_], params])
    if ground_mode == "last":
        comps.append(["ground", "gnd", [labels[n - 1]], {}])
    elif ground_mode == "odd":
        comps.insert(0, ["ground", "gnd", [labels[0]], {}])
    return {"components": comps}


_WP = {}


def class_wp(topo, kt, w):
    key = (topo, kt, w)
    r = _WP.get(key)
    if r is None:
        n = 1 + max(max(p) for p in topo)
        d = build_circuit(topo, kt, 0, n, "none")
        r = rn.well_posed(rc.netlist(d, w, RES_DEFAULT))
        if len(_WP) > 300000:
            _WP.clear()
        _WP[key] = r
    return r


FAMILIES = [("Vac", "R", "C"), ("Vac", "L", "C"), ("Iac", "C", "R"), ("Vacl", "L", "R"), ("Vdc", "R", "L"), ("Vach", "Z", "G"), ("Idcl", "lamp", "Y")]
LONG_PLAIN = ["0", "1", "2", "3", "4", "5", "6", "7", "8", "9", "10"]
LONG_ODD = ["a", "Ba", "9", "109", "_x", "Zz", "b2a", "0x", "C", "c", "100"]


def family_circuit(src, ser, shu, nsec, labels, ground_idx, flip):
    comps = []
    items = [(src, 1, 0)]
    for k in range(nsec):
        items.append((ser, k + 1, k + 2))
        items.append((shu, k + 2, 0))
    for k, (kn, a, b_) in enumerate(items):
        ckind, params = KTAB[kn](sp.P_REAL[k % len(sp.P_REAL)])
        n1, n2 = labels[a], labels[b_]
        if flip and k % 2 == 1:
            n1, n2 = n2, n1
        comps.append([ckind, "%s%02d" % (("x", "y")[k % 2], k) if flip else "e%02d" % k, [n1, n2], params])
    comps.insert(len(comps) // 2, ["ground", "gnd", [labels[ground_idx]], {}])
    return {"components": comps}, tuple(kn for kn, _, _ in items)


def run_family(desc, res):
    _, fi, nsec, tier = desc
    src, ser, shu = FAMILIES[fi]
    for labels in (LONG_PLAIN, LONG_ODD):
        for flip in (False, True):
            for g in range(nsec + 2):
                d, kt = family_circuit(src, ser, shu, nsec, labels, g, flip)
                ws = freq_alphabet(kt)
                wp = [w for w in ws if rn.well_posed(rc.netlist(d, w, RES_DEFAULT))]
                res["evals"] += len(ws)
                bump(res["skipped"], "ill_posed_at_w", len(ws) - len(wp))
                if wp:
                    judge(d, wp, res)


def run_shard(desc):
    res = new_result()
    if desc[0] == "fam":
        run_family(desc, res)
        return res
    n, b, ti, kinds, k0, k1 = desc
    topo = sp.topologies(n, b)[ti]
    allk = list(itertools.product(kinds, repeat=b))
    for kt in allk[k0:k1]:
        ws = freq_alphabet(kt)
        wp = [w for w in ws if class_wp(topo, kt, w)]
        nvar = 2 ** b
        res["evals"] += nvar * len(ws)
        bump(res["skipped"], "ill_posed_at_w", nvar * (len(ws) - len(wp)))
        if not wp:
            continue
        for orient in range(2 ** b):
            gm = ("none", "last", "odd")[(orient + len(kt[0])) % 3]
            d = build_circuit(topo, kt, orient, n, gm)
            judge(d, wp, res)
    return res


def replay(case):
    res = new_result()
    judge(case["circuit"], [F(w) for w in case["ws"]], res)
    return res["violations"]


def judge(d, ws, res):
    from CircuitCalculator.Circuit.solution import ComplexSolution, DCSolution
    try:
        circ = adapt.circuit(d)
    except Exception as e:
        add_violation(res, "phasor_exact", {"circuit": d, "ws": [str(w) for w in ws]}, "circuit", "%s: %s" % (type(e).__name__, e), "cannot build", kind="exception:" + type(e).__name__)
        return
    ids = [c[1] for c in d["components"] if c[0] != "ground"]
    for w in ws:
        case = {"circuit": d, "ws": [str(w)]}
        nl = rc.netlist(d, w, RES_DEFAULT)
        if cm.tableau_condition(nl) > 1e8:
            # exactly well-posed but numerically not: e.g. a current source charging a nanofarad at w = 5e-4 rad/s (1e10 volts);
            # binary64 cannot determine such a solution to any agreed precision, so it is not judged
            bump(res["skipped"], "ill_conditioned_at_w(cond>1e8)")
            continue
        phi_ref, cur_ref = cm.float_tableau_solution(nl)
        s_phi, s_i = cm.scales(nl, phi_ref, cur_ref)
        zs = [abs(complex(z)) for z in (rn.immittance(b)[0] for b in nl["branches"]) if z is not None and z]
        # decades rule (DESIGN 2.2): 1e-9 on the benign palette, 1e-6 when the immittances at this frequency span more than
        # six decades (w >= 100 on the prime palette, or the physical-unit kinds), where the MNA matrix is conditioned ~1e7..1e10
        rtol = 1e-9 if (w < 100 and (not zs or max(zs) / min(zs) < 1e6)) else 1e-6
        tol_v, tol_i = rtol * s_phi, rtol * s_i
        res["states"] += 1
        res["transitions"] += 1
        nodes = rn.nodes_of(nl)
        gated = any(c[0].startswith(("dc_", "ac_")) for c in d["components"])
        try:
            pk = ComplexSolution(circuit=circ, w=float(w), peak_values=True)
            rm = ComplexSolution(circuit=circ, w=float(w))
            P = {nd: complex(pk.get_potential(nd)) for nd in nodes}
            V = {i: complex(pk.get_voltage(i)) for i in ids}
            I = {i: complex(pk.get_current(i)) for i in ids}
            Pr = {nd: complex(rm.get_potential(nd)) for nd in nodes}
            Vr = {i: complex(rm.get_voltage(i)) for i in ids}
            Ir = {i: complex(rm.get_current(i)) for i in ids}
            # the RMS object asked again, currents first and in the opposite order
            again = ([complex(rm.get_current(i)) for i in reversed(ids)], [complex(rm.get_voltage(i)) for i in reversed(ids)],
                     [complex(rm.get_potential(nd)) for nd in reversed(nodes)])
        except Exception as e:
            add_violation(res, "phasor_exact", case, "a solution", "%s: %s" % (type(e).__name__, e), "analysis raised at w=%s" % w, kind="exception:" + type(e).__name__)
            continue
        nz = any(abs(v) > 1e-12 * s_phi for v in phi_ref.values()) or any(abs(v) > 1e-12 * s_i for v in cur_ref.values())
        if nz:
            res["nontrivial"] += 1
        res["fps"].add(fp(*P.values(), *I.values()))
        if len(res["samples"]) < 2 and nz:
            res["samples"].append({"circuit": d, "w": str(w), "potentials": {k: [v.real, v.imag] for k, v in P.items()}})
        bump(res["hits"], "phasor_exact")
        if gated:
            bump(res["hits"], "source_gating")
        bad = False
        exp_i = {}
        for br in nl["branches"]:
            exp_i[br[3]] = -cur_ref[br[3]] if rn.reports_generator_direction(br) else cur_ref[br[3]]
        for nd in nodes:
            if abs(P[nd] - phi_ref[nd]) > tol_v:
                add_violation(res, "phasor_exact", case, phi_ref[nd], P[nd], "peak potential of node %s at w=%s" % (nd, w))
                bad = True
                break
        if not bad:
            for br in nl["branches"]:
                i = br[3]
                if abs(V[i] - (phi_ref[br[0]] - phi_ref[br[1]])) > tol_v:
                    add_violation(res, "phasor_exact", case, phi_ref[br[0]] - phi_ref[br[1]], V[i], "peak voltage of %s at w=%s" % (i, w))
                    bad = True
                    break
                if abs(I[i] - exp_i[i]) > tol_i:
                    add_violation(res, "phasor_exact", case, exp_i[i], I[i], "peak current of %s at w=%s" % (i, w))
                    bad = True
                    break
        # the same circuit described with NumPy scalars, analysed at the frequency given as a NumPy scalar (or as an int)
        bump(res["hits"], "number_types")
        try:
            import numpy as _np
            wv = int(w) if (F(w).denominator == 1 and int(w) % 2 == 0) else _np.float64(float(w))
            alt = ComplexSolution(circuit=adapt.circuit(d, numbers="numpy" if not isinstance(wv, int) else "int"), w=wv, peak_values=True)
            pa, ia = complex(alt.get_potential(nodes[-1])), complex(alt.get_current(ids[0]))
            if abs(pa - P[nodes[-1]]) > tol_v or abs(ia - I[ids[0]]) > tol_i:
                add_violation(res, "phasor_exact", dict(case, numbers=type(wv).__name__), [P[nodes[-1]], I[ids[0]]], [pa, ia],
                              "the same circuit and frequency given as %s numbers are analysed differently (w=%s)" % ("int" if isinstance(wv, int) else "NumPy", w))
        except Exception as e:
            add_violation(res, "phasor_exact", dict(case, numbers="numpy/int"), "a solution", "%s: %s" % (type(e).__name__, e), "analysis raised for NumPy/int-typed numbers at w=%s" % w, kind="exception:" + type(e).__name__)
        bump(res["hits"], "query_order")
        first = ([Ir[i] for i in reversed(ids)], [Vr[i] for i in reversed(ids)], [Pr[nd] for nd in reversed(nodes)])
        if repr(first) != repr(again):
            add_violation(res, "query_order", case, first, again, "answers of one solution object depend on the order in which they are asked for (w=%s)" % w)
        bump(res["hits"], "rms_is_peak_over_sqrt2")
        r2 = math.sqrt(2)
        for nd in nodes:
            if abs(Pr[nd] * r2 - P[nd]) > tol_v:
                add_violation(res, "rms_is_peak_over_sqrt2", case, P[nd] / r2, Pr[nd], "RMS potential of %s" % nd)
                break
        for i in ids:
            if abs(Vr[i] * r2 - V[i]) > tol_v or abs(Ir[i] * r2 - I[i]) > tol_i:
                add_violation(res, "rms_is_peak_over_sqrt2", case, [V[i] / r2, I[i] / r2], [Vr[i], Ir[i]], "RMS voltage/current of %s" % i)
                break
        if w == 0:
            bump(res["hits"], "dc_is_real_part_at_w0")
            try:
                dc = DCSolution(circuit=circ)
                for nd in nodes:
                    x = dc.get_potential(nd)
                    if abs(complex(x).imag) != 0 or abs(x - phi_ref[nd].real) > tol_v:
                        add_violation(res, "dc_is_real_part_at_w0", case, phi_ref[nd].real, x, "DC potential of %s" % nd)
                        break
                for br in nl["branches"]:
                    i = br[3]
                    v, c_ = dc.get_voltage(i), dc.get_current(i)
                    if abs(v - (phi_ref[br[0]] - phi_ref[br[1]]).real) > tol_v or abs(c_ - exp_i[i].real) > tol_i:
                        add_violation(res, "dc_is_real_part_at_w0", case, [(phi_ref[br[0]] - phi_ref[br[1]]).real, exp_i[i].real], [v, c_], "DC voltage/current of %s" % i)
                        break
            except Exception as e:
                add_violation(res, "dc_is_real_part_at_w0", case, "DC solution", "%s: %s" % (type(e).__name__, e), "DCSolution raised", kind="exception:" + type(e).__name__)


def vacuity(agg, tier):
    out = []
    for k in ("phasor_exact", "source_gating", "rms_is_peak_over_sqrt2", "dc_is_real_part_at_w0"):
        if agg["hits"].get(k, 0) == 0:
            out.append("sub-check %s never fired" % k)
    if len(agg["fps"]) < 1000:
        out.append("only %d distinct outcomes" % len(agg["fps"]))
    return out
