"""C20 - analyses are pure, repeatable functions of the circuit description (shape G: histories)."""
import dataclasses
import hashlib
import itertools
import json
import os
import pickle
import sys
import types

import numpy as np

from mc import adapt
from mc.runner import new_result, bump, fp, add_violation

ID = "C20"
LEVEL = "model_checking"
RULE = ("state = fingerprint of all mutable state a call could leave behind (every attribute of every loaded CircuitCalculator "
        "module: function defaults, keyword defaults and closure cells, class dictionaries, module tables) plus a pool of "
        "shared argument objects (networks, circuits, exemption lists, value dictionaries, description dictionaries, frequency "
        "lists, input dictionaries); alphabet = the public operations of C01-C12, C16, C17, each closed over the shared pool "
        "objects (defaults left to default where the API has them); exploration: every operation from the pristine state "
        "(fresh forked process), every two-step history over the whole alphabet, every three-step history over the operations "
        "that receive shared mutable arguments (thorough: every three-step history over the whole alphabet and every four-step history made of two shared-argument operations followed by two of the twelve operations listed in D4_TAIL_OPS); each step's result is compared with the same operation in isolation and the "
        "pool part of the fingerprint with the pristine one (a change of library-internal state is recorded as a new state, not alarmed on); results that the library returns as containers are scribbled on by the harness after each step, and the pool holds twin inputs (same graph, other kinds; same values, permuted source names) so that aliasing or under-keyed caches change a later answer; states = distinct fingerprints seen, transitions = operation executions judged; "
        "non-trivial = history of length >= 2"
        ' Additions: pool-wide exemption lists, value / ground / reference twins, failure-path operations (C = 0, L = 0, infinite answers), NumPy error state in the fingerprint, time axis starting at 0.25.')
ASSUMPTIONS = ["the fingerprint covers all reachable Python-level mutable state of the library and the pool; C-level state of numpy/scipy is trusted",
               "each history starts in a freshly forked child of a parent that imported the library and built the pool but called nothing"]
EXPLANATION = ("explicit-state search over real calls: if every operation returns to the pristine fingerprint with its isolated result, the "
               "state graph has one state and every finite history is covered by induction; the two- and three-step histories are executed anyway")


def budget_s(tier):
    return 1200 if tier == "quick" else 5400


# ------------------------------------------------------------------ canonical forms
def canon(x, depth=0, seen=None):
    if seen is None:
        seen = set()
    if depth > 8:
        return "<deep>"
    if x is None or isinstance(x, (bool, int, str)):
        return x
    if isinstance(x, float):
        return repr(x)
    if isinstance(x, complex):
        return "c(%r,%r)" % (x.real, x.imag)
    if isinstance(x, (np.generic,)):
        return canon(x.item(), depth + 1, seen)
    if isinstance(x, np.ndarray):
        return ["nd", list(x.shape), [canon(v, depth + 1, seen) for v in x.ravel().tolist()[:2000]]]
    if id(x) in seen:
        return "<cycle>"
    if isinstance(x, (list, tuple)):
        seen = seen | {id(x)}
        return [type(x).__name__] + [canon(v, depth + 1, seen) for v in x]
    if isinstance(x, (set, frozenset)):
        return ["set"] + sorted(json.dumps(canon(v, depth + 1, seen), sort_keys=True, default=repr) for v in x)
    if isinstance(x, dict):
        seen = seen | {id(x)}
        return {"dict": [[json.dumps(canon(k, depth + 1, seen), default=repr), canon(v, depth + 1, seen)] for k, v in x.items()]}
    if isinstance(x, (types.FunctionType, types.BuiltinFunctionType, types.MethodType)):
        return "<fn %s>" % getattr(x, "__qualname__", getattr(x, "__name__", "?"))
    if isinstance(x, type):
        return "<class %s>" % x.__qualname__
    if isinstance(x, types.ModuleType):
        return "<module %s>" % x.__name__
    if dataclasses.is_dataclass(x) and not isinstance(x, type):
        seen = seen | {id(x)}
        return {"dc:" + type(x).__name__: [[f.name, canon(getattr(x, f.name, None), depth + 1, seen)] for f in dataclasses.fields(x)]}
    if hasattr(x, "func") and hasattr(x, "keywords"):      # functools.partial
        return {"partial": [canon(x.func, depth + 1, seen), canon(x.args, depth + 1, seen), canon(x.keywords, depth + 1, seen)]}
    if hasattr(x, "__dict__") and not callable(x):
        seen = seen | {id(x)}
        return {"obj:" + type(x).__name__: canon(vars(x), depth + 1, seen)}
    return "<%s>" % type(x).__name__


def fn_state(f):
    cells = []
    if f.__closure__:
        for c in f.__closure__:
            try:
                cells.append(canon(c.cell_contents))
            except ValueError:
                cells.append("<empty>")
    return [canon(f.__defaults__), canon(f.__kwdefaults__), cells]


def library_fingerprint():
    """{where: canonical state} for every attribute of every loaded CircuitCalculator module"""
    out = {}
    for mname in sorted(sys.modules):
        if not (mname == "CircuitCalculator" or mname.startswith("CircuitCalculator.")):
            continue
        mod = sys.modules[mname]
        if mod is None:
            continue
        for aname, val in sorted(vars(mod).items()):
            if aname.startswith("__"):
                continue
            key = mname + "." + aname
            if isinstance(val, types.FunctionType):
                if val.__module__ == mname:
                    out[key] = fn_state(val)
            elif isinstance(val, type):
                if val.__module__ == mname:
                    st = {}
                    for k, v in vars(val).items():
                        if k.startswith("__") and k not in ("__defaults__",):
                            continue
                        if isinstance(v, types.FunctionType):
                            st[k] = fn_state(v)
                        elif isinstance(v, property):
                            continue
                        else:
                            st[k] = canon(v)
                    out[key] = st
            elif isinstance(val, types.ModuleType):
                continue
            else:
                out[key] = canon(val)
    # process-wide numeric settings an analysis may not leave changed (recorded like library state: a change is a new state,
    # the histories decide whether any answer depends on it)
    out["process.numpy_errstate"] = canon(dict(np.geterr()))
    out["process.numpy_printoptions"] = canon({k: v for k, v in np.get_printoptions().items() if isinstance(v, (int, float, str, bool, type(None)))})
    return out


# ------------------------------------------------------------------ the pool of shared argument objects
def build_pool():
    from CircuitCalculator.Network import elements as elm
    from CircuitCalculator.Network.network import Network, Branch
    from mc.ref import circuit as rc
    P = {}
    vs = elm.voltage_source("Vs", 2 + 1j)
    lv = elm.voltage_source("Vl", 1.5, 3)
    cs = elm.current_source("Is", 0.5)
    sh = elm.short_circuit("sc")
    P["net1"] = Network([Branch("1", "0", vs), Branch("1", "2", elm.resistor("R1", 5)), Branch("2", "0", elm.impedance("Z1", 1 + 2j)),
                         Branch("2", "3", sh), Branch("3", "0", cs), Branch("3", "0", elm.admittance("Y1", 0.25)), Branch("0", "3", lv), Branch("1", "3", elm.open_circuit("oc"))])
    v2, i1 = elm.voltage_source("V2", 4), elm.current_source("I1", 1)
    P["net2"] = Network([Branch("a", "b", i1), Branch("a", "b", elm.resistor("Ra", 7)), Branch("b", "c", elm.resistor("Rb", 3)),
                         Branch("c", "a", v2)], node_zero_label="b")
    # "twin" networks: same labelled graph / same values, but different element kinds or permuted source names - the inputs on
    # which a cache keyed by too little (graph only, values only) returns another network's answer
    P["netK1"] = Network([Branch("1", "0", elm.voltage_source("x", 10)), Branch("1", "2", elm.resistor("y", 10)), Branch("2", "0", elm.resistor("z", 20))])
    P["netK2"] = Network([Branch("1", "0", elm.resistor("x", 10)), Branch("1", "2", elm.voltage_source("y", 5)), Branch("2", "0", elm.resistor("z", 20))])
    P["netK3"] = Network([Branch("1", "0", elm.current_source("x", 2)), Branch("1", "2", elm.resistor("y", 10)), Branch("2", "0", elm.voltage_source("z", 3, 4))])
    P["netVa"] = Network([Branch("1", "0", elm.voltage_source("Va", 10)), Branch("2", "0", elm.voltage_source("Vb", 4)), Branch("1", "2", elm.resistor("R12", 2)), Branch("2", "0", elm.resistor("R20", 4))])
    P["netVb"] = Network([Branch("1", "0", elm.voltage_source("Vb", 10)), Branch("2", "0", elm.voltage_source("Va", 4)), Branch("1", "2", elm.resistor("R12", 2)), Branch("2", "0", elm.resistor("R20", 4))])
    # one exemption list object shared by all transformer calls; it names the sources to keep in every network of the pool
    # (entries that do not occur in the network at hand are valid and ignored)
    P["keep"] = [vs, sh, v2]
    P["keep2"] = [cs, i1]
    P["netD"] = Network([Branch("1", "0", elm.voltage_source("Vs", 1)), Branch("1", "2", elm.resistor("R", 2)), Branch("2", "0", elm.admittance("C", 0)),
                         Branch("2", "3", elm.impedance("L", 0)), Branch("3", "0", elm.resistor("R2", 3))])
    P["c_values"] = {"C": 0.5}
    P["l_values"] = {"L": 0.25}
    cdesc = {"components": [["dc_voltage_source", "Vs", ["1", "0"], {"V": 2}], ["resistor", "R1", ["1", "2"], {"R": 5}], ["capacitor", "C1", ["2", "0"], {"C": "1/10"}],
                            ["inductance", "L1", ["2", "3"], {"L": "1/2"}], ["resistor", "R2", ["3", "0"], {"R": 3}], ["ac_current_source", "Is", ["0", "3"], {"I": 1, "w": 2, "phi": "a34", "G": "1/4"}],
                            ["periodic_voltage_source", "Vp", ["4", "3"], {"wavetype": "rect", "V": 1, "w": "1/2", "phi": "0"}], ["resistor", "R3", ["4", "0"], {"R": 11}],
                            ["ground", "gnd", ["0"], {}]]}
    P["circ"] = adapt.circuit(cdesc)
    tdesc = {"components": [["dc_voltage_source", "Vs", ["1", "0"], {"V": 2}], ["resistor", "R1", ["1", "2"], {"R": 5}], ["capacitor", "C1", ["2", "0"], {"C": "1/10"}],
                            ["inductance", "L1", ["2", "3"], {"L": "1/2"}], ["resistor", "R2", ["3", "0"], {"R": 3}], ["dc_current_source", "Is", ["0", "3"], {"I": 1}], ["ground", "gnd", ["0"], {}]]}
    P["tcirc"] = adapt.circuit(tdesc)
    tdesc2 = {"components": [["dc_voltage_source", "Vs", ["1", "0"], {"V": 2}], ["resistor", "R1", ["1", "2"], {"R": 5}], ["inductance", "C1", ["2", "0"], {"L": "1/10"}],
                             ["capacitor", "L1", ["2", "3"], {"C": "1/2"}], ["resistor", "R2", ["3", "0"], {"R": 3}], ["dc_current_source", "Is", ["0", "3"], {"I": 1}], ["ground", "gnd", ["0"], {}]]}
    P["tcirc2"] = adapt.circuit(tdesc2)      # twin of tcirc: same ids and nodes, capacitor and inductor exchanged
    tdesc3 = {"components": [[c[0], c[1], list(c[2]), ({"C": "1/3"} if c[1] == "C1" else {"L": "1/7"} if c[1] == "L1" else dict(c[3]))] for c in tdesc["components"]]}
    P["tcirc3"] = adapt.circuit(tdesc3)      # twin of tcirc: everything equal except the capacitance and the inductance
    tdesc4 = {"components": [list(c) for c in tdesc["components"][:-1]] + [["ground", "gnd", ["3"], {}]]}
    P["tcirc4"] = adapt.circuit(tdesc4)      # twin of tcirc: the same components, ground symbol on another node
    P["netD3"] = Network(list(P["netD"].branches), node_zero_label="3")     # twin of netD: same branches, other reference node
    P["w_list"] = [0.0, 2.0, 0.5]
    P["w_arr"] = np.array([0.0, 2.0, 0.5])
    P["nodes"] = ["1", "2", "3"]
    P["ids"] = ["R1", "C1", "L1", "Vs"]
    P["tin"] = np.linspace(0.25, 2.25, 41)      # a float array that does not start at 0, shared by every transient analysis
    P["inputs"] = {"Vs": (lambda t: np.where(np.asarray(t) > 0.75, 1.0, 0.0)), "Is": (lambda t: 0.5 * (np.asarray(t) - 0.25))}
    P["ndesc"] = [{"type": "voltage_source", "id": "Vs", "N1": "1", "N2": "0", "V": {"abs": 2.0, "phase": 30.0}},
                  {"type": "impedance", "id": "Z1", "N1": "1", "N2": "2", "Z": {"real": 1.0, "imag": 2.0}},
                  {"type": "admittance", "id": "Y1", "N1": "2", "N2": "0", "Y": {"abs": 0.5, "phase": 0.1}},
                  {"type": "linear_current_source", "id": "I1", "N1": "0", "N2": "2", "I": {"real": 1.0, "imag": 0.0}, "Y": {"real": 0.01, "imag": 0.0}}]
    P["zpolar"] = P["ndesc"][0]["V"]        # shared sub-object of the description
    P["cdoc"] = {"components": [{"type": "resistor", "id": "R1", "nodes": ["1", "0"], "value": {"R": 5}},
                                {"type": "impedance", "id": "Z1", "nodes": ["1", "0"], "value": {"Z": 1 + 2j}},
                                {"type": "ac_voltage_source", "id": "Vs", "nodes": ["1", "0"], "value": {"V": 1, "w": 3, "phi": 0.5}}]}
    P["docj"] = {"k": {"z": {"real": 1.0, "imag": -2.0}}, "lst": [{"p": {"abs": 2.0, "phase_deg": 45.0}}, 3.5, "s"], "n": 1}
    P["docc"] = {"k": {"z": 1 - 2j}, "lst": [{"p": 3 + 4j}, 3.5, "s", [1j, 2.0]], "n": 1}
    return P


def pool_fingerprint(P):
    out = {}
    for k, v in P.items():
        if k == "inputs":
            out[k] = sorted(v.keys())
        else:
            out["pool." + k] = canon(v)
    return out


# ------------------------------------------------------------------ the alphabet
def sol_dump(sol, nodes, ids):
    return [[canon(sol.get_potential(n)) for n in nodes], [canon(sol.get_voltage(i)) for i in ids], [canon(sol.get_current(i)) for i in ids], [canon(sol.get_power(i)) for i in ids]]


def net_dump(net):
    return [net.node_zero_label, [(b.node1, b.node2, canon(b.element)) for b in net.branches]]


def alphabet():
    from CircuitCalculator.Network.NodalAnalysis import bias_point_analysis as bpa
    from CircuitCalculator.Network.NodalAnalysis import node_analysis as na
    from CircuitCalculator.Network.NodalAnalysis.state_space_model import nodal_state_space_model
    from CircuitCalculator.Network import transformers as trf
    from CircuitCalculator.Network import equivalent_sources as eqs
    from CircuitCalculator.Network import loaders
    from CircuitCalculator.Circuit import circuit as cc
    from CircuitCalculator.Circuit import solution as cs
    from CircuitCalculator.Circuit import impedance as cimp
    from CircuitCalculator.Circuit import state_space_model as cssm
    from CircuitCalculator.Circuit import dump_load as cdl
    from CircuitCalculator import dump_load as dl
    from CircuitCalculator.SignalProcessing import periodic_functions as pf
    n1_nodes, n1_ids = ["0", "1", "2", "3"], ["Vs", "R1", "Z1", "sc", "Is", "Y1", "Vl", "oc"]
    A = {}
    A["solve_net1"] = lambda P: sol_dump(bpa.nodal_analysis_bias_point_solver(P["net1"]), n1_nodes, n1_ids)
    A["solve_net2"] = lambda P: sol_dump(bpa.nodal_analysis_bias_point_solver(P["net2"]), ["a", "b", "c"], ["I1", "Ra", "Rb", "V2"])
    for nm in ("netK1", "netK2", "netK3"):
        A["solve_" + nm] = (lambda nm: (lambda P: sol_dump(bpa.nodal_analysis_bias_point_solver(P[nm]), ["0", "1", "2"], ["x", "y", "z"])))(nm)
    for nm in ("netVa", "netVb"):
        A["solve_" + nm] = (lambda nm: (lambda P: sol_dump(bpa.nodal_analysis_bias_point_solver(P[nm]), ["0", "1", "2"], ["Va", "Vb", "R12", "R20"])))(nm)
    A["port_impedance"] = lambda P: [canon(na.open_circuit_impedance(P["net1"], "2", "0")), canon(na.open_circuit_impedance(P["net2"], "a", "c")), canon(na.element_impedance(P["net1"], "R1"))]
    A["thevenin"] = lambda P: [canon(bpa.open_circuit_voltage(P["net1"], "2", "0")), canon(bpa.short_circuit_current(P["net1"], "2", "0")), canon(vars(eqs.TheveninEquivalentSource(P["net2"], "a", "b"))),
                               canon(vars(eqs.NortenEquivalentSource(P["net2"], "a", "b")))]
    A["remove_open"] = lambda P: net_dump(trf.remove_open_circuit_elements(P["net1"]))
    A["remove_element"] = lambda P: net_dump(trf.remove_element(P["net1"], "Z1"))
    A["switch_ground"] = lambda P: net_dump(trf.switch_ground_node(P["net1"], "2"))       # (shares its branch list with the input by design: not scribbled)
    A["remove_short_keep"] = lambda P: Raw(trf.remove_short_circuit_elements(P["net1"], keep=P["keep"]), net_dump)
    A["remove_short_default"] = lambda P: net_dump(trf.remove_short_circuit_elements(P["net1"]))
    A["zero_v_keep"] = lambda P: net_dump(trf.short_circuitify_voltage_sources(P["net1"], keep=P["keep"]))
    A["zero_v_default"] = lambda P: net_dump(trf.short_circuitify_voltage_sources(P["net1"]))
    A["zero_i_keep"] = lambda P: net_dump(trf.open_circuitify_current_sources(P["net1"], keep=P["keep2"]))
    A["zero_i_default"] = lambda P: net_dump(trf.open_circuitify_current_sources(P["net1"]))
    A["remove_ideal_i_keep"] = lambda P: net_dump(trf.remove_ideal_current_sources(P["net1"], keep=P["keep2"]))
    A["remove_ideal_v_keep"] = lambda P: net_dump(trf.remove_ideal_voltage_sources(P["net1"], keep=P["keep"]))
    A["remove_ideal_v_default"] = lambda P: net_dump(trf.remove_ideal_voltage_sources(P["net1"]))
    A["passive_keep"] = lambda P: net_dump(trf.passive_network(P["net1"], keep=P["keep"]))
    A["passive_default"] = lambda P: net_dump(trf.passive_network(P["net2"]))
    A["zero_v_keep_net2"] = lambda P: net_dump(trf.short_circuitify_voltage_sources(P["net2"], keep=P["keep"]))
    A["zero_i_keep_net2"] = lambda P: net_dump(trf.open_circuitify_current_sources(P["net2"], keep=P["keep2"]))
    A["passive_keep_net2"] = lambda P: net_dump(trf.passive_network(P["net2"], keep=P["keep"]))

    def ssm_dump(m):
        return [canon(m.A), canon(m.B), canon(m.C), canon(m.D), list(m.sources)]
    A["nodal_ssm_shared_dicts"] = lambda P: ssm_dump(nodal_state_space_model(P["netD"], c_values=P["c_values"], l_values=P["l_values"]))
    def ssm_second_answers(P):
        m = nodal_state_space_model(P["netD"], c_values=P["c_values"], l_values=P["l_values"])
        first = [list(m.sources), canon(m.c_row_current("R")), canon(m.d_row_current("Vs")), canon(m.d_row_for_potential("2"))]
        second = [list(m.sources), canon(m.c_row_current("R")), canon(m.d_row_current("Vs")), canon(m.d_row_for_potential("2"))]
        if first != second:
            # (an operation that raises in isolation is reported by the one-step stage)
            raise AssertionError("the same model object answers differently the second time: %r then %r" % (first, second))
        return first
    A["nodal_ssm_asked_twice"] = ssm_second_answers
    A["nodal_ssm_defaults"] = lambda P: ssm_dump(nodal_state_space_model(P["net2"]))
    A["circuit_ssm"] = lambda P: [canon(getattr(cssm.state_space_model(P["tcirc"], potential_nodes=P["nodes"], voltage_ids=P["ids"], current_ids=P["ids"]), k)) for k in "ABCD"]
    A["circuit_ssm_twin"] = lambda P: [canon(getattr(cssm.state_space_model(P["tcirc2"], potential_nodes=P["nodes"], voltage_ids=P["ids"], current_ids=P["ids"]), k)) for k in "ABCD"]
    A["circuit_ssm_defaults"] = lambda P: [canon(getattr(cssm.state_space_model(P["tcirc"]), k)) for k in "ABCD"]
    A["transform_circuit"] = lambda P: [net_dump(cc.transform_circuit(P["circ"], w)) for w in (0.0, 2.0, 0.5)]
    A["transform_list"] = lambda P: Raw(cc.transform(P["circ"], P["w_list"]), lambda nets: [net_dump(n) for n in nets])
    A["transform_default"] = lambda P: [net_dump(n) for n in cc.transform(P["circ"])]
    A["frequency_components"] = lambda P: canon(cc.frequency_components(P["circ"], 2.2))
    c_nodes, c_ids = ["0", "1", "2", "3", "4"], ["Vs", "R1", "C1", "L1", "R2", "Is", "Vp", "R3"]
    A["dc_solution"] = lambda P: sol_dump(cs.DCSolution(circuit=P["circ"]), c_nodes, c_ids)
    A["complex_solution"] = lambda P: sol_dump(cs.ComplexSolution(circuit=P["circ"], w=2.0), c_nodes, c_ids) + sol_dump(cs.ComplexSolution(circuit=P["circ"], w=0.5, peak_values=True), c_nodes, c_ids)

    def td(P):
        s = cs.TimeDomainSolution(circuit=P["circ"], w_max=2.2)
        t = np.array([0.0, 0.3, 1.7])
        return [canon(s.w), [canon(s.get_potential(n)(t)) for n in c_nodes], [canon(s.get_current(i)(t)) for i in c_ids], canon(s.get_power("R1")(t))]
    A["time_domain_solution"] = td

    def fd(P):
        out = []
        for one in (True, False):
            s = cs.FrequencyDomainSolution(circuit=P["circ"], w_max=2.2, one_sided=one)
            out.append([canon(s.get_voltage("R1")), canon(s.get_current("C1")), canon(s.get_potential("3")), canon(s.get_power("R2"))])
        return out
    A["frequency_domain_solution"] = fd

    def tr(P):
        s = cs.TransientSolution(circuit=P["tcirc"], tin=P["tin"], input=P["inputs"])
        return [canon(s.get_potential("2")), canon(s.get_voltage("C1")), canon(s.get_current("L1")), canon(s.get_power("R2")), canon(s.get_current("Vs"))]
    A["transient_solution"] = tr

    def tr3(P):
        s = cs.TransientSolution(circuit=P["tcirc3"], tin=P["tin"], input=P["inputs"])
        return [canon(s.get_potential("2")), canon(s.get_voltage("C1")), canon(s.get_current("L1")), canon(s.get_power("R2")), canon(s.get_current("Vs"))]
    A["transient_solution_twin_values"] = tr3
    # valid inputs on which an analysis may legitimately refuse or return infinities (whatever it does in isolation is the
    # reference): a failure path must leave the process as it found it
    A["ssm_zero_capacitance"] = lambda P: ssm_dump(nodal_state_space_model(P["netD"], c_values={"C": 0.0}, l_values=P["l_values"]))
    A["ssm_zero_inductance"] = lambda P: ssm_dump(nodal_state_space_model(P["netD"], c_values=P["c_values"], l_values={"L": 0.0}))
    A["short_circuit_current_ideal_port"] = lambda P: [canon(bpa.short_circuit_current(P["netK1"], "1", "0")), canon(bpa.short_circuit_current(P["netVa"], "2", "0"))]
    A["impedance_across_ideal_source"] = lambda P: [canon(na.open_circuit_impedance(P["netK1"], "1", "0")), canon(na.element_impedance(P["netK2"], "y"))]
    A["circuit_ssm_twin_ground"] = lambda P: [canon(getattr(cssm.state_space_model(P["tcirc4"], potential_nodes=["0", "1", "2"], voltage_ids=P["ids"], current_ids=P["ids"]), k)) for k in "ABCD"]
    A["nodal_ssm_twin_reference"] = lambda P: ssm_dump(nodal_state_space_model(P["netD3"], c_values=P["c_values"], l_values=P["l_values"]))
    A["circuit_ssm_twin_values"] = lambda P: [canon(getattr(cssm.state_space_model(P["tcirc3"], potential_nodes=P["nodes"], voltage_ids=P["ids"], current_ids=P["ids"]), k)) for k in "ABCD"]
    A["impedance_sweep"] = lambda P: [canon(cimp.open_circuit_impedance(P["tcirc"], "2", "0", w=P["w_arr"])), canon(cimp.element_impedance(P["tcirc"], "R1", w=P["w_arr"]))]
    A["impedance_sweep_default"] = lambda P: [canon(cimp.open_circuit_impedance(P["tcirc"], "2", "0")), canon(cimp.element_impedance(P["tcirc"], "R1")), canon(cimp.open_circuit_dc_resistance(P["tcirc"], "3", "0")),
                                              canon(cimp.element_dc_resistance(P["tcirc"], "R2"))]

    def four(P):
        out = []
        for wt in ("rect", "tri", "saw", "sin"):
            fs = pf.fourier_series(pf.periodic_function(wt)(period=2.0, amplitude=1.5, phase=0.3, offset=0.1))
            out.append([[canon(fs.amplitude(n)), canon(fs.phase(n)), canon(fs.c(-n))] for n in range(4)])
        return out
    A["fourier_series"] = four
    A["load_network"] = lambda P: Raw(loaders.load_network(P["ndesc"]), net_dump)
    A["to_complex_polar"] = lambda P: canon(loaders.to_complex(P["zpolar"]))
    A["to_complex_degree"] = lambda P: canon(loaders.to_complex(P["zpolar"], degree=True))
    A["generate_component"] = lambda P: [canon(cdl.generate_component(e)) for e in P["cdoc"]["components"]]
    A["undictify_circuit"] = lambda P: canon(cdl.undictify_circuit(P["cdoc"]).components)
    A["undictify_all"] = lambda P: Raw(dl.undictify_all_complex_values(P["docj"]))
    A["dictify_all"] = lambda P: Raw(dl.dictify_all_complex_values(P["docc"]))
    A["serialize_roundtrip_json"] = lambda P: Raw(dl.deserialize(dl.serialize(P["docc"], "json"), "json"))
    A["serialize_roundtrip_yaml"] = lambda P: Raw(dl.deserialize(dl.serialize(P["docc"], "yaml"), "yaml"))
    A["deserialize_circuit_text"] = lambda P: Raw(cdl.undictify_circuit(dl.deserialize(CIRCUIT_TEXT, "json")).components)
    return A


CIRCUIT_TEXT = '{"components": [{"type": "resistor", "id": "R1", "nodes": ["1", "0"], "value": {"R": 5}}, {"type": "impedance", "id": "Z1", "nodes": ["1", "0"], "value": {"Z": {"real": 1.0, "imag": 2.0}}}]}'


class Raw:
    """an operation result kept as the object the library returned: the harness canonicalises it and then SCRIBBLES on it
    (clears lists and dictionaries, overwrites arrays), as a caller is free to do with what it was given; a library that hands
    out a cached or aliased object will then give a different answer next time"""
    def __init__(self, obj, dump=None):
        self.obj = obj
        self.dump = dump or canon


def scribble(x, depth=0):
    if depth > 4:
        return
    if isinstance(x, dict):
        for v in list(x.values()):
            scribble(v, depth + 1)
        x.clear()
        x["scribbled"] = True
    elif isinstance(x, list):
        for v in list(x):
            scribble(v, depth + 1)
        x.clear()
        x.append("scribbled")
    elif isinstance(x, np.ndarray):
        if x.flags.writeable and x.dtype.kind in "fc":
            x[...] = 1e300
    elif dataclasses.is_dataclass(x) and not isinstance(x, type):
        # Network, Branch, Component, ... are (frozen) value objects that may legitimately share their parts with the
        # objects they were derived from (switch_ground_node, a contraction that contracts nothing): not a caller's to edit
        return
    elif isinstance(x, tuple):
        for v in x:
            scribble(v, depth + 1)


# operations whose isolated result may be an exception (the same exception is then expected in every history)
MAY_RAISE = {"ssm_zero_capacitance", "ssm_zero_inductance", "short_circuit_current_ideal_port", "impedance_across_ideal_source"}
SHARED_ARG_OPS = ["ssm_zero_capacitance", "ssm_zero_inductance", "short_circuit_current_ideal_port", "zero_v_keep_net2", "zero_i_keep_net2", "passive_keep_net2", "remove_short_keep", "remove_short_default", "zero_v_keep", "zero_v_default", "zero_i_keep", "remove_ideal_v_keep", "passive_keep", "passive_default",
                  "nodal_ssm_shared_dicts", "nodal_ssm_defaults", "transform_list", "transform_default", "transient_solution", "impedance_sweep_default",
                  "load_network", "to_complex_degree", "undictify_circuit", "undictify_all", "dictify_all", "serialize_roundtrip_json", "deserialize_circuit_text"]


# four-step histories: any two shared-argument operations followed by any two of these (the ones that take the shared lists,
# dictionaries, arrays or descriptions, or that answer with an exception / an infinity)
D4_TAIL_OPS = ["zero_v_keep_net2", "passive_keep_net2", "remove_short_keep", "zero_v_keep", "passive_keep", "nodal_ssm_shared_dicts", "transform_list",
               "transient_solution", "load_network", "ssm_zero_inductance", "short_circuit_current_ideal_port", "undictify_all"]


# ------------------------------------------------------------------ running histories in forked children
def run_history_in_child(ops):
    """fork; in the child run the operations, after each record (result digest, changed fingerprint keys)"""
    r, w = os.pipe()
    pid = os.fork()
    if pid == 0:
        try:
            os.close(r)
            P = _STATE["pool"]
            A = _STATE["alphabet"]
            base = _STATE["fp0"]
            out = []
            for name in ops:
                try:
                    r_ = A[name](P)
                    if isinstance(r_, Raw):
                        dumped = r_.dump(r_.obj)
                        res = ("ok", hashlib.sha1(json.dumps(dumped, sort_keys=True, default=repr).encode()).hexdigest())
                        scribble(r_.obj)
                    else:
                        res = ("ok", hashlib.sha1(json.dumps(r_, sort_keys=True, default=repr).encode()).hexdigest())
                except Exception as e:
                    res = ("exc", "%s: %s" % (type(e).__name__, str(e)[:200]))
                now = dict(library_fingerprint())
                now.update(pool_fingerprint(P))
                changed = sorted(k for k in set(now) | set(base) if now.get(k) != base.get(k))
                detail = {k: [json.dumps(base.get(k), default=repr)[:300], json.dumps(now.get(k), default=repr)[:300]] for k in changed[:3]}
                digest = hashlib.sha1(json.dumps(now, sort_keys=True, default=repr).encode()).hexdigest()
                out.append((res, changed, detail, digest))
            with os.fdopen(w, "wb") as f:
                pickle.dump(out, f)
        finally:
            os._exit(0)
    os.close(w)
    with os.fdopen(r, "rb") as f:
        data = f.read()
    os.waitpid(pid, 0)
    return pickle.loads(data)


_STATE = {}


def ensure_state():
    if _STATE:
        return
    A = alphabet()
    P = build_pool()
    # import everything the alphabet touches before taking the pristine fingerprint (imports are not calls)
    fp0 = dict(library_fingerprint())
    fp0.update(pool_fingerprint(P))
    _STATE.update(pool=P, alphabet=A, fp0=fp0, iso={})
    for name in A:
        _STATE["iso"][name] = run_history_in_child([name])[0]


def shards(tier):
    names = sorted(alphabet_names())
    out = [("depth1", ("d1",))]
    for a in names:
        out.append(("depth2", ("d2", a)))
    for a in SHARED_ARG_OPS:
        out.append(("depth3-shared-args", ("d3", a)))
    if tier == "thorough":
        for a in names:
            for b in names:
                out.append(("depth3-whole-alphabet", ("d3all", a, b)))
        for a in SHARED_ARG_OPS:
            for b in SHARED_ARG_OPS:
                out.append(("depth4-shared-args", ("d4", a, b)))
    return out


def alphabet_names():
    # names only (no library import needed at shard-listing time beyond what the runner already did)
    return list(alphabet().keys())


def run_shard(desc):
    res = new_result()
    ensure_state()
    names = sorted(_STATE["alphabet"])
    if desc[0] == "d1":
        for a in names:
            judge_history([a], res)
    elif desc[0] == "d2":
        for b in names:
            judge_history([desc[1], b], res)
    elif desc[0] == "d3":
        for b in SHARED_ARG_OPS:
            for c in SHARED_ARG_OPS:
                judge_history([desc[1], b, c], res)
    elif desc[0] == "d3all":
        for c in names:
            judge_history([desc[1], desc[2], c], res)
    else:
        for c in D4_TAIL_OPS:
            for d_ in D4_TAIL_OPS:
                judge_history([desc[1], desc[2], c, d_], res)
    return res


def replay(case):
    res = new_result()
    ensure_state()
    judge_history(case["history"], res)
    return res["violations"]


def judge_history(ops, res):
    res["evals"] += 1
    if len(ops) >= 2:
        res["nontrivial"] += 1
    out = run_history_in_child(ops)
    iso = _STATE["iso"]
    case = {"history": list(ops)}
    digests = res.setdefault("state_keys", set())
    for step, (name, (r, changed, detail, digest)) in enumerate(zip(ops, out)):
        res["transitions"] += 1
        digests.add(digest)
        res["fps"].add(hash((name, r)) & 0xFFFFFFFFFFFF)
        if iso[name][0][0] == "exc" and name not in MAY_RAISE:
            add_violation(res, "result_equals_isolation", {"history": [name]}, "a result", iso[name][0][1], "operation %s raises even in isolation" % name, kind="exception")
            return
        bump(res["hits"], "result_equals_isolation")
        if r != iso[name][0]:
            add_violation(res, "result_equals_isolation", case, iso[name][0][1][:12], r[1][:200],
                          "step %d (%s) gives a different result after %s than in isolation" % (step, name, ops[:step]), kind="history_dependent_result")
            return
        bump(res["hits"], "arguments_unmutated")
        pool_changed = [k for k in changed if k.startswith("pool.")]
        if pool_changed:
            add_violation(res, "arguments_unmutated", dict(case, history=list(ops[:step + 1])), "unchanged", {k: v for k, v in detail.items() if k.startswith("pool.")} or detail,
                          "%s modified an object it was given: %s" % (name, pool_changed[:4]), kind="mutated:" + ",".join(pool_changed[:2]))
            return
        if changed:
            # state inside the library changed (e.g. a cache was filled).  That alone breaks nothing the property states; it makes
            # the state graph larger, and the histories below are what decides whether any answer depends on it.
            bump(res["extra"].setdefault("library_state_changes", {}), name + ": " + ",".join(c.split("CircuitCalculator.")[-1] for c in changed[:2]))
    bump(res["hits"], {1: "one_step", 2: "two_step_histories", 3: "three_step_shared_arg_histories", 4: "four_step_shared_arg_histories"}[len(ops)])
    if len(res["samples"]) < 2 and len(ops) == 3:
        res["samples"].append({"history": list(ops)})


def vacuity(agg, tier):
    out = []
    for k in ("result_equals_isolation", "arguments_unmutated", "one_step", "two_step_histories", "three_step_shared_arg_histories"):
        if agg["hits"].get(k, 0) == 0:
            out.append("sub-check %s never fired" % k)
    return out
