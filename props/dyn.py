"""Shared enumeration of RLC + ideal-source circuits for C10, C11, C12 (and C03 dynamics)."""
import itertools
from fractions import Fraction as F
import numpy as np

from mc import space as sp
from mc.ref import netlist as rn
from mc.ref import circuit as rc
from mc.ref import dynamics as rd

DK = ("R", "C", "L", "V", "I")
# ids that interleave current sources, voltage sources, inductors and passives alphabetically
ID_SCHEMES = {
    "asc": ["A", "IsA", "L", "R", "VsR", "Z", "b", "c"],
    "desc": ["c", "b", "Z", "VsR", "R", "L", "IsA", "A"],
    "mix": ["L", "A", "Z", "IsA", "b", "VsR", "R", "c"],
}


PHYS_R = [1000, 47, 2200000, 330, 10000, "47/10", 100000, 68]
PHYS_C = ["1/1000000000000", "1/10000000", "47/10000000", "22/100000000000", "1/1000", "33/1000000000", "1/100000", "1/1000000000"]
PHYS_L = ["1/1000000000", "1/1000", "47/10000000", "1/10", "22/1000000", "1/100000", "1", "33/100000000"]


def comp(kind, cid, a, b_, k, pal="real"):
    v = sp.P_REAL[k]
    if pal == "dec":
        v = F(sp.P_DEC[k])
    if pal == "phys":
        # component values in SI units as they occur on a bench: ohms to megohms, picofarads to millifarads, nanohenries to henries
        if kind == "R":
            return ["resistor", cid, [a, b_], {"R": F(PHYS_R[k % 8])}]
        if kind == "C":
            return ["capacitor", cid, [a, b_], {"C": F(PHYS_C[k % 8])}]
        if kind == "L":
            return ["inductance", cid, [a, b_], {"L": F(PHYS_L[k % 8])}]
    if kind == "R":
        return ["resistor", cid, [a, b_], {"R": v}]
    if kind == "C":
        return ["capacitor", cid, [a, b_], {"C": F(1) / v}]
    if kind == "L":
        return ["inductance", cid, [a, b_], {"L": F(v) / 2}]
    if kind == "V":
        return ["dc_voltage_source", cid, [a, b_], {"V": F(sp.P_REAL[k + 2], 2)}]
    if kind == "I":
        return ["dc_current_source", cid, [a, b_], {"I": -F(sp.P_REAL[k + 1], 3)}]
    raise ValueError(kind)


# node labels that are also element ids of the same circuit (separate name spaces; ids and labels may coincide)
LABELS_LIKE_IDS = ("L", "VsR", "A", "Z", "R")
# distinct labels over one two-character alphabet: every pair of them has the same *set of characters*
# (label comparisons by character set / concatenation instead of equality collide on every pair)
LABELS_CHARSET = ("1", "10", "0", "01", "101")


def labels_for(orient, ii, n):
    """node labels of variant (orient, ii): plain digits, labels that are also element ids, or the one-alphabet labels"""
    if ii % 2:
        return LABELS_LIKE_IDS[:n]
    return LABELS_CHARSET[:n] if orient % 2 else None


def build(topo, kt, orient, ids, ground_idx, labels=None, pal="real"):
    n = 1 + max(max(p) for p in topo)
    labels = labels or sp.LABELS_PLAIN[:n]
    comps = []
    for k, ((i, j), kn) in enumerate(zip(topo, kt)):
        a, b_ = (labels[j], labels[i]) if (orient >> k) & 1 else (labels[i], labels[j])
        comps.append(comp(kn, ids[k], a, b_, k, pal))
    comps.append(["ground", "gnd", [labels[ground_idx]], {}])
    return {"components": comps}


def admissible(kt, max_reactive=3, max_sources=2):
    nr = sum(1 for k in kt if k in ("C", "L"))
    ns = sum(1 for k in kt if k in ("V", "I"))
    return 1 <= nr <= max_reactive and 1 <= ns <= max_sources


def twin_reactive(kt):
    """exactly one source, exactly two reactive elements of the same kind, resistors elsewhere"""
    nc = sum(1 for k in kt if k == "C")
    nl = sum(1 for k in kt if k == "L")
    ns = sum(1 for k in kt if k in ("V", "I"))
    return ns == 1 and ((nc == 2 and nl == 0) or (nl == 2 and nc == 0))


def kind_tuples(b, filt="admissible", max_reactive=3):
    if filt == "twin":
        return [kt for kt in itertools.product(DK, repeat=b) if twin_reactive(kt)]
    return [kt for kt in itertools.product(DK, repeat=b) if admissible(kt, max_reactive=max_reactive)]


def orientations(b, mode):
    if mode == "all":
        return list(range(2 ** b))
    return [0b01011 & (2 ** b - 1), 0b10110 & (2 ** b - 1)]


_ND = {}


def class_non_degenerate(topo, kt, pal="real"):
    key = (topo, kt, pal)
    r = _ND.get(key)
    if r is None:
        d = build(topo, kt, 0, ID_SCHEMES["asc"], 0, pal=pal)
        r = rd.non_degenerate(d)
        if len(_ND) > 100000:
            _ND.clear()
        _ND[key] = r
    return r


def float_response(desc, w, source_id, cond_max=1e10):
    """(phi dict, net current dict, netlist) of the unit response at jw, or None if (numerically) singular."""
    nl = rd.laplace_netlist(desc, [0, w], unit_source=source_id)
    M, rhs, nidx, nb = rn.tableau(nl)
    A = np.array([[complex(x) for x in row] for row in M], dtype=complex)
    # rows of the tableau carry very different units (ohms, siemens, 1): equilibrate before judging the conditioning
    rs = np.abs(A).max(axis=1)
    rs[rs == 0] = 1.0
    if np.linalg.cond(A / rs[:, None]) > cond_max:
        return None
    x = np.linalg.solve(A / rs[:, None], np.array([complex(v) for v in rhs]) / rs)
    nn = len(nidx)
    phi = {n: x[k] for n, k in nidx.items()}
    phi[nl["ref"]] = 0j
    cur = {b[3]: x[nn + k] for k, b in enumerate(nl["branches"])}
    return phi, cur, nl


def pole_scaled_frequencies(A):
    """rational frequencies spread over the magnitudes of the natural frequencies (for palettes in physical units)"""
    ev = np.linalg.eigvals(np.asarray(A, float))
    mags = sorted(abs(x) for x in ev if abs(x) > 0) or [1.0]
    out = [F(0)]
    for m in (mags[0], mags[-1]):
        for f in (0.013, 0.13, 0.5, 1.1, 2.3, 10.7, 97.0):
            v = m * f
            w = F(int(v * 1000), 1000) if v < 1e6 else F(int(v))
            if w not in out:
                out.append(w)
    return out


def library_models(desc):
    """(circuit, nodal model) built exactly as the library's own wrappers do"""
    from mc import adapt
    from CircuitCalculator.Circuit.circuit import transform_circuit
    from CircuitCalculator.Network.NodalAnalysis.state_space_model import nodal_state_space_model
    circ = adapt.circuit(desc)
    net = transform_circuit(circ, w=0)
    c_values = {c.id: float(c.value['C']) for c in circ.components if c.type == 'capacitor'}
    l_values = {c.id: float(c.value['L']) for c in circ.components if c.type == 'inductance'}
    ssm = nodal_state_space_model(net, c_values=c_values, l_values=l_values)
    return circ, ssm


W_PALETTE = [F(0), F(1, 10), F(1, 3), F(1, 2), F(1), F(2), F(3), F(7), F(10), F(100)]


# ------------------------------------------------------------------ ladder families (larger state dimension)
LADDERS = [("V", "R", "C"), ("V", "L", "C"), ("I", "C", "R"), ("V", "L", "R"), ("I", "R", "L"), ("V", "C", "R")]
W_PALETTE_LONG = W_PALETTE + [F(1, 5), F(3, 4), F(3, 2), F(5), F(13), F(30)]


def ladder(src, ser, shu, nsec, scheme="asc", flip=False, ground_idx=0, termination=True):
    """source between node 1 and node 0, nsec sections of (series element k+1 -> k+2, shunt element k+2 -> 0), resistive termination"""
    items = [(src, 1, 0)]
    for k in range(nsec):
        items.append((ser, k + 1, k + 2))
        items.append((shu, k + 2, 0))
    if termination:
        items.append(("R", nsec + 1, 0))
    names = ["e%02d" % k for k in range(len(items))]
    if scheme == "desc":
        names = list(reversed(names))
    elif scheme == "mix":
        names = [("z%02d" if k % 2 else "A%02d") % k for k in range(len(items))]
    labels = ["0", "1", "2", "3", "4", "5", "6", "7", "8", "9"]
    comps = []
    for k, (kn, a, b_) in enumerate(items):
        n1, n2 = labels[a], labels[b_]
        if flip and k % 2 == 1:
            n1, n2 = n2, n1
        comps.append(comp(kn, names[k], n1, n2, k % 12))
    comps.append(["ground", "gnd", [labels[ground_idx]], {}])
    return {"components": comps}
