#!/venv/bin/python
import argparse
import os
import sys

VERIF = os.path.dirname(os.path.dirname(os.path.abspath(__file__)))
sys.path.insert(0, VERIF)
os.environ.setdefault("PYTHONHASHSEED", "0")


def main():
    ap = argparse.ArgumentParser()
    ap.add_argument("prop", nargs="?")
    ap.add_argument("--tier", default=os.environ.get("VERIF_TIER", "quick"), choices=["quick", "thorough"])
    ap.add_argument("--replay")
    ap.add_argument("--quiet", action="store_true")
    ap.add_argument("--nproc", type=int, default=0)
    a = ap.parse_args()
    # pin hash randomisation: re-exec once if the interpreter was started without it
    if os.environ.get("VERIF_REEXEC") != "1" and sys.flags.hash_randomization and os.environ.get("PYTHONHASHSEED") in (None, "random"):
        os.environ["PYTHONHASHSEED"] = "0"
    from mc import runner
    if a.replay:
        sys.exit(runner.replay_file(a.replay, a.quiet))
    if not a.prop:
        ap.error("property id required")
    seed = int(os.environ.get("VERIF_SEED", "0") or 0)
    sys.exit(runner.run_property("props." + a.prop.lower(), a.tier, seed, a.nproc or None))


if __name__ == "__main__":
    main()
