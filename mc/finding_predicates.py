"""Narrow predicates over failing inputs, one per open known finding."""
from .findings import predicate  # noqa: F401
