"""Reference parser for rendered numbers (C18, C14).  Never imports CircuitCalculator.

parse_number(text, unit, prefixes) -> dict(value=Fraction, sign, mantissa=Fraction, mantissa_str,
exp10=int (decimal exponent incl. prefix), e_part, prefix, sig_digits) or raises ValueError.
"""
import re
from fractions import Fraction as F

DEFAULT_PREFIXES = {-12: 'p', -9: 'n', -6: 'u', -3: 'm', -1: 'c', 3: 'k', 6: 'M', 9: 'G', 12: 'T'}

_NUM = re.compile(r'^(-?)(\d+)(?:\.(\d+))?(?:e(-?\d+))?$')


def parse_number(text, unit="", prefixes=None):
    """prefixes: dict exponent -> symbol, or None when no prefix may appear."""
    s = text
    if s in ("∞", "-∞"):
        return {"inf": True, "sign": -1 if s.startswith("-") else 1}
    if unit:
        if not s.endswith(unit):
            raise ValueError("unit %r missing in %r" % (unit, text))
        s = s[:len(s) - len(unit)]
    pexp, psym = 0, ""
    if prefixes:
        for e, sym in prefixes.items():
            if s.endswith(sym) and len(sym) > 0:
                # a prefix symbol is a letter; digits never collide with it
                pexp, psym = e, sym
                s = s[:len(s) - len(sym)]
                break
    m = _NUM.match(s)
    if not m:
        raise ValueError("not a number: %r (from %r)" % (s, text))
    sign = -1 if m.group(1) else 1
    ip, fp_, ee = m.group(2), m.group(3) or "", m.group(4)
    e_part = int(ee) if ee is not None else 0
    mant = F(int(ip + fp_), 10 ** len(fp_)) if (ip + fp_) else F(0)
    digits = (ip + fp_).lstrip("0")
    lead_zero_stripped = len(ip + fp_) - len(digits)
    value = sign * mant * F(10) ** (e_part + pexp)
    return {"inf": False, "value": value, "sign": sign, "mantissa": mant, "mantissa_str": ip + ("." + fp_ if fp_ else ""),
            "exp10": e_part + pexp, "e_part": e_part, "prefix": psym, "prefix_exp": pexp,
            "sig_digits": len(ip + fp_) - lead_zero_stripped if mant else 0, "shown_digits": len(ip.lstrip("0") + fp_) if ip.strip("0") else len(fp_.lstrip("0")),
            "explicit_minus": bool(m.group(1))}


def half_unit(value, p):
    """half a unit of the p-th significant digit of value (Fraction), value != 0"""
    v = abs(F(value))
    # decimal exponent of the leading digit
    e = 0
    if v >= 1:
        while v >= F(10) ** (e + 1):
            e += 1
    else:
        while v < F(10) ** e:
            e -= 1
    return F(10) ** (e - p + 1) / 2, e
