"""Boring reference model of a linear network: plain tuples + sparse-tableau equations.

A netlist is {"ref": label, "branches": [[n1, n2, kind, id, params], ...]} (JSON-able).
kinds and params (numbers are rationals written as int, "p/q" strings, or [re, im] pairs):
  Z   [z]        impedance            v = z*i
  Y   [y]        admittance           i = y*v
  R   [r]        resistor  (same as Z, real)
  G   [g]        conductor (same as Y, real)
  load [P, Vref] power load           i = (P/Vref^2)*v
  V   [v]        ideal voltage source v = V               (v = phi(n1)-phi(n2))
  I   [i]        ideal current source i = I               (i = net current n1 -> n2)
  LV  [v, z]     linear voltage source  i = (V + v)/z     (raises its SECOND terminal)
  LI  [i, y]     linear current source  i = I + y*v
  short []       v = 0
  open  []       i = 0
Reported current (library convention): +i for everything except LV/LI (with non-zero
source value), which report -i (generator direction).
This module never imports CircuitCalculator.
"""
from fractions import Fraction as F
from .. import exact as ex
from ..exact import GQ

PASSIVE = ("Z", "Y", "R", "G", "load", "short", "open")
SOURCES = ("V", "I", "LV", "LI")


def q(x):
    """number spec -> GQ"""
    if isinstance(x, GQ):
        return x
    if isinstance(x, (list, tuple)):
        return GQ(F(x[0]), F(x[1]))
    if isinstance(x, float):
        return GQ(F(x), 0)
    return GQ(F(x), 0)


def c(x):
    """number spec -> python complex (float)"""
    return complex(q(x))


def nodes_of(nl):
    s = set()
    for b in nl["branches"]:
        s.add(b[0])
        s.add(b[1])
    s.add(nl["ref"])
    return sorted(s)


def tableau(nl):
    """Return (M, rhs, node_index, nb): unknowns = potentials of non-ref nodes then branch
    currents i_b (net, n1 -> n2)."""
    ref = nl["ref"]
    nodes = [n for n in nodes_of(nl) if n != ref]
    nidx = {n: k for k, n in enumerate(nodes)}
    br = nl["branches"]
    nn, nb = len(nodes), len(br)
    N = nn + nb
    M = [[ex.ZERO] * N for _ in range(N)]
    rhs = [ex.ZERO] * N
    # KCL rows
    for k, b in enumerate(br):
        if b[0] != ref:
            M[nidx[b[0]]][nn + k] = M[nidx[b[0]]][nn + k] + 1
        if b[1] != ref:
            M[nidx[b[1]]][nn + k] = M[nidx[b[1]]][nn + k] - 1
    # branch rows
    for k, b in enumerate(br):
        n1, n2, kind, _id, p = b
        row = M[nn + k]

        def addv(coef):
            if n1 != ref:
                row[nidx[n1]] = row[nidx[n1]] + coef
            if n2 != ref:
                row[nidx[n2]] = row[nidx[n2]] - coef
        if kind in ("Z", "R"):
            addv(ex.ONE)
            row[nn + k] = -q(p[0])
        elif kind in ("Y", "G"):
            addv(-q(p[0]))
            row[nn + k] = ex.ONE
        elif kind == "load":
            y = q(p[0]) / (q(p[1]) * q(p[1]))
            addv(-y)
            row[nn + k] = ex.ONE
        elif kind == "V":
            addv(ex.ONE)
            rhs[nn + k] = q(p[0])
        elif kind == "I":
            row[nn + k] = ex.ONE
            rhs[nn + k] = q(p[0])
        elif kind == "LV":
            # z*i - v = V
            addv(-ex.ONE)
            row[nn + k] = q(p[1])
            rhs[nn + k] = q(p[0])
        elif kind == "LI":
            # i - y*v = I
            addv(-q(p[1]))
            row[nn + k] = ex.ONE
            rhs[nn + k] = q(p[0])
        elif kind == "short":
            addv(ex.ONE)
        elif kind == "open":
            row[nn + k] = ex.ONE
        else:
            raise ValueError(kind)
    return M, rhs, nidx, nb


def well_posed(nl):
    M, _, _, _ = tableau(nl)
    return bool(ex.det(M))


def solve(nl):
    """Exact solution or None.  Returns dict(phi={node: GQ}, i={id: GQ net n1->n2},
    v={id: GQ}, rep_i={id: GQ reported current})."""
    M, rhs, nidx, nb = tableau(nl)
    x = ex.solve(M, rhs)
    if x is None:
        return None
    nn = len(nidx)
    phi = {n: x[k] for n, k in nidx.items()}
    phi[nl["ref"]] = ex.ZERO
    cur, vol, rep = {}, {}, {}
    for k, b in enumerate(nl["branches"]):
        cur[b[3]] = x[nn + k]
        vol[b[3]] = phi[b[0]] - phi[b[1]]
        rep[b[3]] = -x[nn + k] if reports_generator_direction(b) else x[nn + k]
    return {"phi": phi, "i": cur, "v": vol, "rep_i": rep}


def reports_generator_direction(b):
    kind, p = b[2], b[4]
    if kind == "LV":
        return bool(q(p[0])) and bool(q(p[1]))
    if kind == "LI":
        return bool(q(p[0])) and bool(q(p[1]))
    return False


def immittance(b):
    """(Z, Y) of the branch as GQ or None for infinite."""
    kind, p = b[2], b[4]
    if kind in ("Z", "R"):
        z = q(p[0])
        return z, (z.inv() if z else None)
    if kind in ("Y", "G"):
        y = q(p[0])
        return (y.inv() if y else None), y
    if kind == "load":
        y = q(p[0]) / (q(p[1]) * q(p[1]))
        return (y.inv() if y else None), y
    if kind in ("V", "short"):
        return ex.ZERO, None
    if kind in ("I", "open"):
        return None, ex.ZERO
    if kind == "LV":
        z = q(p[1])
        return z, (z.inv() if z else None)
    if kind == "LI":
        y = q(p[1])
        return (y.inv() if y else None), y
    raise ValueError(kind)


def source_scale(nl):
    """Natural scales (S_phi, S_i) of the problem, as floats (see DESIGN 2.2)."""
    zmax, ymax = 0.0, 0.0
    vs, is_ = 0.0, 0.0
    for b in nl["branches"]:
        z, y = immittance(b)
        if z is not None and z:
            zmax = max(zmax, abs(z))
        if y is not None and y:
            ymax = max(ymax, abs(y))
        kind, p = b[2], b[4]
        if kind in ("V", "LV"):
            vs = max(vs, abs(q(p[0])))
        if kind in ("I", "LI"):
            is_ = max(is_, abs(q(p[0])))
    s_phi = max(vs, is_ * zmax, 1e-300)
    s_i = max(is_, s_phi * ymax, 1e-300)
    return s_phi, s_i


def deactivated(nl):
    """All independent sources set to zero, internal immittances kept."""
    out = []
    for b in nl["branches"]:
        n1, n2, kind, bid, p = b
        if kind == "V":
            out.append([n1, n2, "short", bid, []])
        elif kind == "I":
            out.append([n1, n2, "open", bid, []])
        elif kind == "LV":
            out.append([n1, n2, "Z", bid, [p[1]]])
        elif kind == "LI":
            out.append([n1, n2, "Y", bid, [p[1]]])
        else:
            out.append(list(b))
    return {"ref": nl["ref"], "branches": out}


def conducts(b):
    """True if the (deactivated) branch can carry current."""
    z, y = immittance(b)
    if y is None:          # zero impedance
        return True
    return bool(y)


def contract_shorts(branches, protect=()):
    """Merge nodes joined by zero-impedance branches (of a deactivated network); returns
    (remaining branches renamed, node -> representative).  Self-loops are dropped."""
    parent = {}

    def find(x):
        parent.setdefault(x, x)
        while parent[x] != x:
            parent[x] = parent[parent[x]]
            x = parent[x]
        return x
    for b in branches:
        find(b[0])
        find(b[1])
        z, y = immittance(b)
        if y is None and b[2] in ("short", "Z", "R", "V", "LV"):
            ra, rb = find(b[0]), find(b[1])
            if ra != rb:
                parent[ra] = rb
    out = []
    for b in branches:
        z, y = immittance(b)
        if y is None:
            continue
        a, c_ = find(b[0]), find(b[1])
        if a != c_:
            out.append([a, c_, b[2], b[3], b[4]])
    return out, {n: find(n) for n in list(parent)}


def has_zero_impedance_loop(nl):
    """True iff the deactivated network contains a loop of zero-impedance branches (ideal
    voltage sources / shorts): such a network is ill-posed whatever its source values."""
    parent = {}

    def find(x):
        parent.setdefault(x, x)
        while parent[x] != x:
            parent[x] = parent[parent[x]]
            x = parent[x]
        return x
    for b in deactivated(nl)["branches"]:
        z, y = immittance(b)
        if y is None:
            ra, rb = find(b[0]), find(b[1])
            if ra == rb:
                return True
            parent[ra] = rb
    return False


def port_impedance(nl, a, b_, solver=None):
    """Exact driving-point impedance between nodes a and b: deactivate sources, contract
    zero-impedance branches, drop parts reachable only through non-conducting branches,
    inject 1 A from b into a, read phi(a)-phi(b).  Returns GQ (or what `solver` yields),
    "inf" if no conducting path joins a and b, or None if the conducting part is singular."""
    if a == b_:
        return ex.ZERO
    d = deactivated(nl)
    cond = [b for b in d["branches"] if conducts(b)]
    cond, rep = contract_shorts(cond)
    a2, b2 = rep.get(a, a), rep.get(b_, b_)
    if a2 == b2:
        return ex.ZERO
    comp = {a2}
    grew = True
    while grew:
        grew = False
        for b in cond:
            if (b[0] in comp) != (b[1] in comp):
                comp.add(b[0])
                comp.add(b[1])
                grew = True
    if b2 not in comp:
        return "inf"
    keep = [b for b in cond if b[0] in comp and b[1] in comp]
    d = {"ref": b2, "branches": keep + [[b2, a2, "I", "__test__", [1]]]}
    if solver is not None:
        return solver(d, a2, b2)
    s = solve(d)
    if s is None:
        return None
    return s["phi"][a2] - s["phi"][b2]
