"""Reference model of component circuits: plain descriptions -> phasor netlist at w.

A circuit description is {"components": [[kind, id, [n1, n2], params], ...]} where params is a
dict of rationals (ints, "p/q" strings) except 'phi' (a name from ANGLES), 'wavetype' (str).
A ground is ["ground", id, [node], {}].  Never imports CircuitCalculator.
"""
import cmath
import math
from fractions import Fraction as F

ANGLES = {
    "0": (0.0, (F(1), F(0))),
    "pi/2": (math.pi / 2, (F(0), F(1))),
    "pi": (math.pi, (F(-1), F(0))),
    "-pi/2": (-math.pi / 2, (F(0), F(-1))),
    "a34": (math.atan2(3, 4), (F(4, 5), F(3, 5))),
    "-a34": (-math.atan2(3, 4), (F(4, 5), F(-3, 5))),
    "a43": (math.atan2(4, 3), (F(3, 5), F(4, 5))),
    "a512": (math.atan2(5, 12), (F(12, 13), F(5, 13))),
    "2pi+a34": (2 * math.pi + math.atan2(3, 4), (F(4, 5), F(3, 5))),
}

VOLTAGE_SOURCES = ("dc_voltage_source", "ac_voltage_source", "complex_voltage_source", "periodic_voltage_source")
CURRENT_SOURCES = ("dc_current_source", "ac_current_source", "complex_current_source", "periodic_current_source")


def f(x):
    return F(x)


def fl(x):
    return float(F(x))


def phase_float(name):
    return ANGLES[name][0]


def harmonic(wavetype, A, phi, n):
    """True n-th Fourier harmonic (complex peak phasor X_n, f(t) = sum |X_n| cos(n w0 t + arg X_n))
    of the built-in waveforms with amplitude A (float), phase phi (float), zero offset."""
    if wavetype == "const":
        return complex(A) if n == 0 else 0j
    if n == 0:
        return 0j
    if wavetype == "cos":
        return A * cmath.exp(1j * phi) if n == 1 else 0j
    if wavetype == "sin":
        return A * cmath.exp(1j * (phi - math.pi / 2)) if n == 1 else 0j
    if wavetype == "rect":
        return (4 * A / (n * math.pi)) * cmath.exp(1j * (n * phi - math.pi / 2)) if n % 2 else 0j
    if wavetype == "tri":
        return (8 * A / (n * n * math.pi ** 2)) * cmath.exp(1j * n * phi) if n % 2 else 0j
    if wavetype == "saw":
        return (-2 * A / (n * math.pi)) * cmath.exp(1j * (n * phi - math.pi / 2))
    raise ValueError(wavetype)


def cnum(z):
    """complex float -> exact [re, im] spec"""
    z = complex(z)
    return [F(z.real), F(z.imag)]


def ground_node(desc):
    g = [c for c in desc["components"] if c[0] == "ground"]
    if g:
        return g[0][2][0]
    return desc["components"][0][2][0]


def source_phasor(c, w, res):
    """(active?, complex value spec) of a source component at analysis frequency w (Fractions)."""
    kind, p = c[0], c[3]
    w = F(w)
    res = F(res)
    key = "V" if kind in VOLTAGE_SOURCES else "I"
    if kind.startswith("dc_"):
        return (abs(w - 0) <= res), [F(p[key]), F(0)]
    if kind.startswith("ac_"):
        ws = F(p.get("w", 0))
        co, si = ANGLES[p.get("phi", "0")][1]
        return (abs(w - ws) <= res), [F(p[key]) * co, F(p[key]) * si]
    if kind.startswith("complex_"):
        v = p[key]
        return True, [F(v[0]), F(v[1])]
    if kind.startswith("periodic_"):
        w0 = F(p["w"])
        ratio = w / w0
        n = round(float(ratio))
        # ties of round() are not in the palettes
        if abs(ratio - n) > res / w0:
            return False, None
        x = harmonic(p["wavetype"], fl(p[key]), phase_float(p.get("phi", "0")), n)
        return True, cnum(x)
    raise ValueError(kind)


def branch(c, w, res=F(1, 1000)):
    """One reference netlist branch [n1, n2, kind, id, params] for component c at w, or None for ground."""
    kind, cid, nodes, p = c
    if kind == "ground":
        return None
    n1, n2 = nodes
    w = F(w)
    if kind == "resistor" and p["R"] == "inf":
        return [n1, n2, "open", cid, []]
    if kind == "resistor":
        return [n1, n2, "Z", cid, [[F(p["R"]), 0]]] if F(p["R"]) else [n1, n2, "short", cid, []]
    if kind == "conductance":
        return [n1, n2, "Y", cid, [[F(p["G"]), 0]]] if F(p["G"]) else [n1, n2, "open", cid, []]
    if kind == "impedance":
        z = p["Z"]
        return [n1, n2, "Z", cid, [[F(z[0]), F(z[1])]]]
    if kind == "admittance":
        y = p["Y"]
        return [n1, n2, "Y", cid, [[F(y[0]), F(y[1])]]]
    if kind == "capacitor":
        b = w * F(p["C"])
        return [n1, n2, "Y", cid, [[0, b]]] if b else [n1, n2, "open", cid, []]
    if kind == "inductance":
        x = w * F(p["L"])
        return [n1, n2, "Z", cid, [[0, x]]] if x else [n1, n2, "short", cid, []]
    if kind in ("lamp", "resistive_load"):
        return [n1, n2, "load", cid, [F(p["P"]), F(p["V_ref"])]]
    if kind == "short_circuit":
        return [n1, n2, "short", cid, []]
    if kind in VOLTAGE_SOURCES:
        active, val = source_phasor(c, w, res)
        if not active:
            return [n1, n2, "short", cid, []]
        if kind == "complex_voltage_source":
            z = p.get("Z", [0, 0])
            zz = [F(z[0]), F(z[1])]
        else:
            zz = [F(p.get("R", 0)), F(0)]
        if zz[0] == 0 and zz[1] == 0:
            if val[0] == 0 and val[1] == 0:
                return [n1, n2, "short", cid, []]
            return [n1, n2, "V", cid, [val]]
        if val[0] == 0 and val[1] == 0:
            return [n1, n2, "Z", cid, [zz]]
        return [n1, n2, "LV", cid, [val, zz]]
    if kind in CURRENT_SOURCES:
        active, val = source_phasor(c, w, res)
        if not active:
            return [n1, n2, "open", cid, []]
        if kind == "complex_current_source":
            y = p.get("Y", [0, 0])
            yy = [F(y[0]), F(y[1])]
        else:
            yy = [F(p.get("G", 0)), F(0)]
        if yy[0] == 0 and yy[1] == 0:
            if val[0] == 0 and val[1] == 0:
                return [n1, n2, "open", cid, []]
            return [n1, n2, "I", cid, [val]]
        if val[0] == 0 and val[1] == 0:
            return [n1, n2, "Y", cid, [yy]]
        return [n1, n2, "LI", cid, [val, yy]]
    raise ValueError(kind)


def netlist(desc, w, res=F(1, 1000)):
    br = [branch(c, w, res) for c in desc["components"]]
    return {"ref": ground_node(desc), "branches": [b for b in br if b is not None]}


def frequencies(desc, w_max, res=F(1, 1000)):
    """Expected analysed frequencies: distinct source frequencies and all harmonics k*w0 <= w_max
    (k = 0 included), entries coinciding within the resolution counted once.  Returns a sorted
    list of Fractions (cluster representatives = smallest member)."""
    ws = []
    for c in desc["components"]:
        kind, p = c[0], c[3]
        if kind.startswith("periodic_"):
            w0 = F(p["w"])
            k = 0
            while k * w0 <= F(w_max):
                ws.append(k * w0)
                k += 1
        elif kind.startswith("dc_"):
            ws.append(F(0))
        elif kind.startswith("ac_"):
            ws.append(F(p.get("w", 0)))
    ws = sorted(set(ws))
    out = []
    for w in ws:
        if out and w - out[-1] <= res:
            continue
        out.append(w)
    return out
