"""Reference model of RLC dynamics: the pencil M(s) = M0 + s*M1 of the circuit tableau.

Works on circuit descriptions (see ref/circuit.py) restricted to resistor, capacitor,
inductance, dc_voltage_source (ideal), dc_current_source (ideal), ground.
Never imports CircuitCalculator.
"""
from fractions import Fraction as F
from .. import exact as ex
from . import netlist as rn
from . import circuit as rc


def laplace_netlist(desc, s, unit_source=None, keep_sources=False):
    """Netlist at complex frequency s (GQ / Fraction / [re, im]).  If unit_source is given, that
    source has value 1 and every other source is deactivated; with keep_sources all sources keep
    their dc values."""
    s = ex.GQ.of(s) if not isinstance(s, (list, tuple)) else ex.GQ(F(s[0]), F(s[1]))
    br = []
    for c in desc["components"]:
        kind, cid, nodes, p = c
        if kind == "ground":
            continue
        n1, n2 = nodes
        if kind == "resistor":
            br.append([n1, n2, "Z", cid, [[F(p["R"]), 0]]])
        elif kind == "capacitor":
            y = s * F(p["C"])
            br.append([n1, n2, "Y", cid, [[y.re, y.im]]] if y else [n1, n2, "open", cid, []])
        elif kind == "inductance":
            z = s * F(p["L"])
            br.append([n1, n2, "Z", cid, [[z.re, z.im]]] if z else [n1, n2, "short", cid, []])
        elif kind == "dc_voltage_source":
            if keep_sources:
                br.append([n1, n2, "V", cid, [F(p["V"])]])
            elif cid == unit_source:
                br.append([n1, n2, "V", cid, [1]])
            else:
                br.append([n1, n2, "short", cid, []])
        elif kind == "dc_current_source":
            if keep_sources:
                br.append([n1, n2, "I", cid, [F(p["I"])]])
            elif cid == unit_source:
                br.append([n1, n2, "I", cid, [1]])
            else:
                br.append([n1, n2, "open", cid, []])
        else:
            raise ValueError(kind)
    return {"ref": rc.ground_node(desc), "branches": br}


def reactive(desc):
    caps = [c for c in desc["components"] if c[0] == "capacitor"]
    inds = [c for c in desc["components"] if c[0] == "inductance"]
    return caps, inds


def sources(desc):
    return [c for c in desc["components"] if c[0] in ("dc_voltage_source", "dc_current_source")]


def char_poly_samples(desc, npts):
    """det of the tableau at s = 1, 2, ..., npts and at s = 0 (exact)."""
    vals = {}
    for s in range(0, npts + 1):
        M, _, _, _ = rn.tableau(laplace_netlist(desc, s))
        vals[s] = ex.det(M)
    return vals


def non_degenerate(desc):
    """(ok, reason): characteristic polynomial has degree n_C + n_L and no root at s = 0.
    det M(s) is a polynomial of degree <= n; its n-th finite difference over s = 1..n+1
    equals n! * leading coefficient."""
    caps, inds = reactive(desc)
    n = len(caps) + len(inds)
    vals = char_poly_samples(desc, n + 1)
    if not vals[0]:
        return False, "root_at_s=0_or_dc_ill_posed"
    d = [vals[s].re for s in range(1, n + 2)]
    if any(vals[s].im for s in vals):
        return False, "complex_det"
    for _ in range(n):
        d = [b - a for a, b in zip(d[:-1], d[1:])]
    if d[0] == 0:
        return False, "characteristic_polynomial_degree_deficient"
    return True, ""


def response(desc, w, source_id):
    """Exact phasor response to a unit source at angular frequency w (Fraction) with all
    other sources deactivated: rn.solve dict or None when singular at jw."""
    nl = laplace_netlist(desc, [0, w], unit_source=source_id)
    return rn.solve(nl), nl
