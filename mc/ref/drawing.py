"""Reference model of schematic drawings: lattice placement programs -> intended netlist.

A program is a list of items (plain JSON):
  {"op": "wire",   "p": [x, y], "q": [x, y]}
  {"op": "sym",    "kind": K, "name": N, "p": [x, y], "q": [x, y], "reverse": bool, "params": {...}}
  {"op": "label",  "name": N, "p": [x, y]}
  {"op": "ground", "p": [x, y]}
Lattice coordinates are small integers; p is the start terminal (where the symbol is placed),
q the end terminal.  Never imports CircuitCalculator.
"""
import cmath
import math
from fractions import Fraction as F

VOLTAGE_KINDS = ("dc_v", "ac_v", "complex_v", "rect_v", "tri_v", "saw_v")
CURRENT_KINDS = ("dc_i", "ac_i", "complex_i", "rect_i", "tri_i", "saw_i")
PASSIVE_KINDS = ("resistor", "conductance", "impedance", "capacitor", "inductance", "lamp", "switch_open", "switch_closed", "labeled_wire")


def classes(program):
    """union-find over lattice points joined by wires: point -> representative"""
    parent = {}

    def find(x):
        parent.setdefault(x, x)
        while parent[x] != x:
            parent[x] = parent[parent[x]]
            x = parent[x]
        return x
    for it in program:
        for key in ("p", "q"):
            if key in it:
                find(tuple(it[key]))
    for it in program:
        if it["op"] == "wire":
            a, b = find(tuple(it["p"])), find(tuple(it["q"]))
            if a != b:
                parent[max(a, b)] = min(a, b)
    return {p: find(p) for p in list(parent)}


def node_names(program):
    """class representative -> name given by a label / ground symbol ('0'); None if two names collide"""
    cls = classes(program)
    names = {}
    for it in program:
        if it["op"] in ("label", "ground"):
            nm = it["name"] if it["op"] == "label" else it.get("name", "0")
            c = cls[tuple(it["p"])]
            if c in names and names[c] != nm:
                return None
            names[c] = nm
    if len(set(names.values())) != len(names):
        return None
    return names


def source_phasor(kind, params):
    """(complex value or (V, w, phi_rad, wavetype) tuple) the symbol stands for, polarised start -> end"""
    base = kind.split("_")[0]
    key = "V" if kind.endswith("_v") else "I"
    if base == "dc":
        return ("dc", float(params[key]))
    if base == "complex":
        v = params[key]
        return ("complex", complex(v[0], v[1]))
    phi = float(params.get("phi", 0.0))
    if params.get("deg"):
        phi = math.radians(phi)
    if params.get("sin"):
        phi -= math.pi / 2
    if base == "ac":
        return ("ac", float(params[key]), float(params["w"]), phi)
    return (base, float(params[key]), float(params["w"]), phi)


def intended_components(program):
    """list of (component type, id, (start class, end class), canonical value description)"""
    cls = classes(program)
    out = []
    for it in program:
        if it["op"] != "sym":
            continue
        a, b = cls[tuple(it["p"])], cls[tuple(it["q"])]
        kind, p = it["kind"], it.get("params", {})
        if kind in VOLTAGE_KINDS or kind in CURRENT_KINDS:
            if it.get("reverse"):
                a, b = b, a
            out.append({"family": "V" if kind in VOLTAGE_KINDS else "I", "id": it["name"], "nodes": (a, b), "source": source_phasor(kind, p)})
        elif kind == "resistor":
            out.append({"family": "P", "type": "resistor", "id": it["name"], "nodes": (a, b), "value": {"R": float(p["R"])}})
        elif kind == "conductance":
            out.append({"family": "P", "type": "conductance", "id": it["name"], "nodes": (a, b), "value": {"G": float(p["G"])}})
        elif kind == "impedance":
            out.append({"family": "P", "type": "impedance", "id": it["name"], "nodes": (a, b), "value": {"R": float(p["Z"][0]), "X": float(p["Z"][1])}})
        elif kind == "capacitor":
            out.append({"family": "P", "type": "capacitor", "id": it["name"], "nodes": (a, b), "value": {"C": float(p["C"])}})
        elif kind == "inductance":
            out.append({"family": "P", "type": "inductance", "id": it["name"], "nodes": (a, b), "value": {"L": float(p["L"])}})
        elif kind == "lamp":
            out.append({"family": "P", "type": "lamp", "id": it["name"], "nodes": (a, b), "value": {"P": float(p["P_ref"]), "V_ref": float(p["V_ref"])}})
        elif kind == "switch_open":
            out.append({"family": "P", "type": "resistor", "id": it["name"], "nodes": (a, b), "value": {"R": math.inf}})
        elif kind == "switch_closed":
            out.append({"family": "P", "type": "resistor", "id": it["name"], "nodes": (a, b), "value": {"R": 1e-12}})
        elif kind == "labeled_wire":
            out.append({"family": "P", "type": "short_circuit", "id": it["name"], "nodes": (a, b), "value": {}})
        else:
            raise ValueError(kind)
    return out


def phasor_netlist(program, node_label, w, ref_label, res=1e-3):
    """reference phasor netlist (see ref/netlist.py) of the intended circuit at angular frequency w (float)"""
    from . import circuit as rc
    br = []

    def cx(z):
        z = complex(z)
        return [F(z.real), F(z.imag)]
    for c in intended_components(program):
        n1, n2 = node_label[c["nodes"][0]], node_label[c["nodes"][1]]
        cid = c["id"]
        if c["family"] == "P":
            t, v = c["type"], c["value"]
            if t == "resistor":
                if v["R"] == math.inf:
                    br.append([n1, n2, "open", cid, []])
                else:
                    br.append([n1, n2, "Z", cid, [cx(v["R"])]])
            elif t == "conductance":
                br.append([n1, n2, "Y", cid, [cx(v["G"])]])
            elif t == "impedance":
                br.append([n1, n2, "Z", cid, [cx(complex(v["R"], v["X"]))]])
            elif t == "capacitor":
                br.append([n1, n2, "Y", cid, [cx(1j * w * v["C"])]] if w * v["C"] else [n1, n2, "open", cid, []])
            elif t == "inductance":
                br.append([n1, n2, "Z", cid, [cx(1j * w * v["L"])]] if w * v["L"] else [n1, n2, "short", cid, []])
            elif t == "lamp":
                br.append([n1, n2, "load", cid, [F(v["P"]), F(v["V_ref"])]])
            elif t == "short_circuit":
                br.append([n1, n2, "short", cid, []])
            continue
        s = c["source"]
        off = "short" if c["family"] == "V" else "open"
        on = c["family"]
        if s[0] == "dc":
            val = complex(s[1]) if abs(w) <= res else None
        elif s[0] == "complex":
            val = s[1]
        elif s[0] == "ac":
            val = s[1] * cmath.exp(1j * s[3]) if abs(w - s[2]) <= res else None
        else:
            n = round(w / s[2])
            val = rc.harmonic(s[0], s[1], s[3], n) if abs(w / s[2] - n) <= res / s[2] else None
        if val is None or val == 0:
            br.append([n1, n2, off, cid, []])
        else:
            br.append([n1, n2, on, cid, [cx(val)]])
    return {"ref": ref_label, "branches": br}
