"""Finite spaces: connected labelled multigraph topologies, palettes, helpers.
Everything is enumerated in a deterministic simplest-first order."""
import itertools
from functools import lru_cache


@lru_cache(maxsize=None)
def topologies(n, b):
    """All connected loop-free multigraphs that use all of n labelled nodes with b
    branches, as sorted tuples of node pairs (i<j); parallel branches = repeated pair."""
    pairs = [(i, j) for i in range(n) for j in range(i + 1, n)]
    out = []
    for combo in itertools.combinations_with_replacement(pairs, b):
        used = set()
        for (i, j) in combo:
            used.add(i)
            used.add(j)
        if len(used) != n:
            continue
        # connectivity
        parent = list(range(n))

        def find(x):
            while parent[x] != x:
                parent[x] = parent[parent[x]]
                x = parent[x]
            return x
        for (i, j) in combo:
            parent[find(i)] = find(j)
        if len({find(x) for x in range(n)}) == 1:
            out.append(combo)
    return tuple(out)


# label tuples: same order type as indices / an order that contradicts numeric reading, no '0'
LABELS_PLAIN = ("0", "1", "2", "3", "4", "5", "6", "7", "8", "9")
# nested on purpose: 'a' is part of 'Ba' and 'b2a', '9' of '109' (substring tests instead of equality show up in either direction)
LABELS_ODD = ("a", "Ba", "9", "109", "_x", "Zz", "b2a")     # sorted: '109'<'9'<'Ba'<'Zz'<'_x'<'a'<'b2a'

# value palettes (distinct per branch position)
P_REAL = [2, 3, 5, 7, 11, 13, 17, 19, 23, 29, 31, 37, 41, 43, 47, 53]
P_CPLX = [[2, 1], [3, -2], [5, 3], [7, -1], [1, 4], [11, 2], [13, -5], [3, 7], [17, 1], [19, -3], [23, 2], [29, -7], [31, 3], [37, -1], [41, 5], [43, -2]]
P_DEC = ["1/1000", "7/100", "3/10", 2, 50, 1100, "13/1000", "17/10", 230, "29/100", 3100, "37/10000", 41, "43/10", 470, "53/100"]
SRC_REAL = [1, -2, 3, "1/2", 5, -7, 4, "3/2"]
SRC_CPLX = [[1, 0], [-2, 1], [0, 3], ["1/2", -1], [5, 2], [-7, -3], [4, 1], ["3/2", 2]]

# coincidence palette: every passive value equal, every source value equal (what equality-based lookups and de-duplication trip over)
P_EQ = [5] * 16
SRC_EQ = [1] * 8
# wide palette: bench values over eighteen decades (judged only where binary64 can determine the solution, see common.tableau_condition)
P_WIDE = ["1/1000000000", 4700, "22/1000000", 1000000, "3/100", 330, "1/10000000", 56000, 8, "47/100000", 120000, "1/1000", 2200, 15, "68/10000", 910000000]

# extreme palette: values next to the limits where "almost zero" shortcuts bite (1 pOhm ... 1 TOhm, 1 nV ... 5 GV); used for
# structural judgements only (which branches survive, with which ids, terminals and values)
P_XT = ["1/1000000000000", 1000000000000, "3/10000000000", 30000000000, "1/100000000", 200000000, "7/1000000000", 5000000000] * 2
SRC_XT = ["1/1000000000", 5000000000, "-1/10000000000", -20000000000, "3/100000000", 700000000, "1/1000000000000", 9000000000]

# small-signal palette: ordinary passive values, sources of nanovolts / nanoamperes (absolute "is it zero" tests bite here;
# every judgement in the checks is relative to the natural scale of the case, so nothing else changes)
SRC_SMALL = ["1/1000000000", "-1/500000000", "3/1000000000", "1/2000000000", "1/200000000", "-7/1000000000", "1/250000000", "3/2000000000"]

# nanovolt/nanoampere sources next to ordinary ones (a small source acting alone must still contribute its share)
SRC_MIXED = ["1/1000000000", -2, "3/1000000000", "1/2", "1/200000000", -7, "1/250000000", "3/2"]

PALETTES = {
    "mixed": (P_REAL, SRC_MIXED),
    "small": (P_REAL, SRC_SMALL),
    "xt": (P_XT, SRC_XT),
    "eq": (P_EQ, SRC_EQ),
    "wide": (P_WIDE, SRC_REAL),
    "real": (P_REAL, SRC_REAL),
    "cplx": (P_CPLX, SRC_CPLX),
    "dec": (P_DEC, SRC_REAL),
}

# id palettes: names whose sort order interleaves element kinds
# nested on purpose: "A" is part of "IsA", "R" of "VsR", "Z" of "Zz" (substring tests instead of equality)
IDS_ASC = ["A", "IsA", "L", "R", "VsR", "Z", "Zz", "a", "b", "c", "d", "e", "f", "g", "h", "i"]


def chunks(seq, size):
    seq = list(seq)
    for i in range(0, len(seq), size):
        yield seq[i:i + size]
