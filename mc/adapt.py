"""The only place that builds library objects from reference netlists."""
from .ref import netlist as rn


def lib():
    from CircuitCalculator.Network import elements as elm
    from CircuitCalculator.Network.network import Network, Branch
    return elm, Network, Branch


def _np_scalar(z):
    """the same number as a NumPy scalar (what np.sqrt(2)*230, np.exp(1j*phi) or an array element hand to the library)"""
    import numpy as np
    z = complex(z)
    return np.float64(z.real) if z.imag == 0 else np.complex128(z)


def element(b, numpy_scalars=False):
    elm, _, _ = lib()
    n1, n2, kind, bid, p = b
    c = (lambda x: _np_scalar(rn.c(x))) if numpy_scalars else rn.c
    if kind == "Z":
        return elm.impedance(bid, c(p[0]))
    if kind == "Y":
        return elm.admittance(bid, c(p[0]))
    if kind == "R":
        return elm.resistor(bid, c(p[0]).real)
    if kind == "G":
        return elm.conductor(bid, c(p[0]).real)
    if kind == "load":
        return elm.load(bid, P=c(p[0]).real, V_ref=c(p[1]).real)
    if kind == "V":
        return elm.voltage_source(bid, V=c(p[0]))
    if kind == "I":
        return elm.current_source(bid, I=c(p[0]))
    if kind == "LV":
        return elm.voltage_source(bid, V=c(p[0]), Z=c(p[1]))
    if kind == "LI":
        return elm.current_source(bid, I=c(p[0]), Y=c(p[1]))
    if kind == "short":
        return elm.short_circuit(bid)
    if kind == "open":
        return elm.open_circuit(bid)
    raise ValueError(kind)


def network(nl, numpy_scalars=False):
    _, Network, Branch = lib()
    return Network([Branch(b[0], b[1], element(b, numpy_scalars)) for b in nl["branches"]], node_zero_label=nl["ref"])


def _num(x):
    """library number -> JSON-able exact spec ([re, im] floats are exact binary rationals)"""
    x = complex(x)
    return [x.real, x.imag]


def to_netlist(net):
    """Read a library Network back into a reference netlist (classification by record
    class and values, exactly as the library's own predicates see the element)."""
    from CircuitCalculator.Network import elements as elm
    out = []
    for b in net.branches:
        e = b.element
        if isinstance(e, elm.NortenElement):
            z, v = complex(e.Z), complex(e.V)
            if z.real == float("inf") or z.real == float("-inf"):
                k, p = "open", []
            elif z == 0 and v == 0:
                k, p = "short", []
            elif z == 0:
                k, p = "V", [_num(v)]
            elif v == 0:
                k, p = "Z", [_num(z)]
            else:
                k, p = "LV", [_num(v), _num(z)]
        elif isinstance(e, elm.TheveninElement):
            y, i = complex(e.Y), complex(e.I)
            if y == 0 and i == 0:
                k, p = "open", []
            elif y == 0:
                k, p = "I", [_num(i)]
            elif i == 0:
                k, p = "Y", [_num(y)]
            else:
                k, p = "LI", [_num(i), _num(y)]
        else:
            raise TypeError(type(e))
        out.append([b.node1, b.node2, k, b.id, p])
    return {"ref": net.node_zero_label, "branches": out}


def component(c, numbers="float"):
    """reference component description -> library Component"""
    from CircuitCalculator.Circuit import components as ccp
    from .ref import circuit as rc
    kind, cid, nodes, p = c
    # numbers: "float" (Python floats), "numpy" (np.float64 / np.complex128 scalars), "int" (Python ints where the value is integral)
    if numbers == "numpy":
        import numpy as np
        fl = lambda x: np.float64(rc.fl(x))
        complex_ = lambda a, b: np.complex128(complex(a, b))
    elif numbers == "int":
        fl = lambda x: (int(rc.fl(x)) if float(rc.fl(x)).is_integer() else rc.fl(x))
        complex_ = complex
    else:
        fl = rc.fl
        complex_ = complex
    nodes = tuple(nodes)
    if kind == "ground":
        return ccp.ground(id=cid, nodes=nodes)
    if kind == "resistor":
        return ccp.resistor(cid, nodes, R=float("inf") if p["R"] == "inf" else fl(p["R"]))
    if kind == "conductance":
        return ccp.conductance(cid, nodes, G=fl(p["G"]))
    if kind == "impedance":
        return ccp.impedance(cid, nodes, Z=complex_(fl(p["Z"][0]), fl(p["Z"][1])))
    if kind == "admittance":
        return ccp.admittance(cid, nodes, Y=complex_(fl(p["Y"][0]), fl(p["Y"][1])))
    if kind == "capacitor":
        return ccp.capacitor(cid, nodes, C=fl(p["C"]))
    if kind == "inductance":
        return ccp.inductance(cid, nodes, L=fl(p["L"]))
    if kind == "lamp":
        return ccp.lamp(cid, nodes, P=fl(p["P"]), V_ref=fl(p["V_ref"]))
    if kind == "resistive_load":
        return ccp.resistive_load(cid, nodes, P=fl(p["P"]), V_ref=fl(p["V_ref"]))
    if kind == "short_circuit":
        return ccp.short_circuit(cid, nodes)
    if kind == "dc_voltage_source":
        return ccp.dc_voltage_source(cid, nodes, V=fl(p["V"]), R=fl(p.get("R", 0)))
    if kind == "ac_voltage_source":
        return ccp.ac_voltage_source(cid, nodes, V=fl(p["V"]), R=fl(p.get("R", 0)), w=fl(p.get("w", 0)), phi=rc.phase_float(p.get("phi", "0")))
    if kind == "complex_voltage_source":
        z = p.get("Z", [0, 0])
        return ccp.complex_voltage_source(cid, nodes, V=complex_(fl(p["V"][0]), fl(p["V"][1])), Z=complex_(fl(z[0]), fl(z[1])))
    if kind == "periodic_voltage_source":
        return ccp.periodic_voltage_source(cid, nodes, wavetype=p["wavetype"], V=fl(p["V"]), w=fl(p["w"]), phi=rc.phase_float(p.get("phi", "0")), R=fl(p.get("R", 0)))
    if kind == "dc_current_source":
        return ccp.dc_current_source(cid, nodes, I=fl(p["I"]), G=fl(p.get("G", 0)))
    if kind == "ac_current_source":
        return ccp.ac_current_source(cid, nodes, I=fl(p["I"]), G=fl(p.get("G", 0)), w=fl(p.get("w", 0)), phi=rc.phase_float(p.get("phi", "0")))
    if kind == "complex_current_source":
        y = p.get("Y", [0, 0])
        return ccp.complex_current_source(cid, nodes, I=complex_(fl(p["I"][0]), fl(p["I"][1])), Y=complex_(fl(y[0]), fl(y[1])))
    if kind == "periodic_current_source":
        return ccp.periodic_current_source(cid, nodes, wavetype=p["wavetype"], I=fl(p["I"]), w=fl(p["w"]), phi=rc.phase_float(p.get("phi", "0")), G=fl(p.get("G", 0)))
    raise ValueError(kind)


def circuit(desc, numbers="float"):
    from CircuitCalculator.Circuit.circuit import Circuit
    return Circuit([component(c, numbers) for c in desc["components"]])


# ------------------------------------------------------------------ schematic drawings
def _symbol(it):
    import CircuitCalculator.SimpleCircuit.Elements as elm
    k, p, name = it["kind"], it.get("params", {}), it["name"]
    rev = bool(it.get("reverse", False))
    src_opts = {kk: p[kk] for kk in ("deg", "sin") if kk in p}
    if k == "resistor":
        return elm.Resistor(R=p["R"], name=name)
    if k == "conductance":
        return elm.Conductance(G=p["G"], name=name)
    if k == "impedance":
        return elm.Impedance(Z=complex(p["Z"][0], p["Z"][1]), name=name)
    if k == "capacitor":
        return elm.Capacitor(C=p["C"], name=name)
    if k == "inductance":
        return elm.Inductance(L=p["L"], name=name)
    if k == "lamp":
        return elm.Lamp(V_ref=p["V_ref"], P_ref=p["P_ref"], name=name)
    if k == "switch_open":
        return elm.Switch(name=name, state=elm.SwitchState.OPEN)
    if k == "switch_closed":
        return elm.Switch(name=name, state=elm.SwitchState.CLOSED)
    if k == "labeled_wire":
        return elm.LabeledLine(name=name)
    if k == "dc_v":
        return elm.VoltageSource(V=p["V"], name=name, reverse=rev)
    if k == "dc_i":
        return elm.CurrentSource(I=p["I"], name=name, reverse=rev)
    if k == "complex_v":
        return elm.ComplexVoltageSource(V=complex(p["V"][0], p["V"][1]), name=name, reverse=rev)
    if k == "complex_i":
        return elm.ComplexCurrentSource(I=complex(p["I"][0], p["I"][1]), name=name, reverse=rev)
    if k == "ac_v":
        return elm.ACVoltageSource(V=p["V"], w=p["w"], phi=p["phi"], name=name, reverse=rev, **src_opts)
    if k == "ac_i":
        return elm.ACCurrentSource(I=p["I"], w=p["w"], phi=p["phi"], name=name, reverse=rev, **src_opts)
    cls = {"rect_v": "RectVoltageSource", "tri_v": "TriangleVoltageSource", "saw_v": "SawtoothVoltageSource",
           "rect_i": "RectCurrentSource", "tri_i": "TriangleCurrentSource", "saw_i": "SawtoothCurrentSource"}[k]
    key = "V" if k.endswith("_v") else "I"
    d_opts = {kk: p[kk] for kk in ("deg",) if kk in p}
    return getattr(elm, cls)(**{key: p[key]}, w=p["w"], phi=p["phi"], name=name, reverse=rev, **d_opts)


def lattice_point(xy, geom):
    import math
    th = math.radians(geom.get("theta", 0))
    c, s = round(math.cos(th)), round(math.sin(th))
    x, y = xy
    u = geom.get("unit", 2)
    ox, oy = geom.get("origin", (0, 0))
    return (ox + u * (c * x - s * y), oy + u * (s * x + c * y))


def build_schematic(program, geom=None, style="dir"):
    """Build the real Schematic for a lattice placement program.  style: 'dir' (at/direction/length), 'chain' (direction only
    where an item starts where the previous one ended, 'dir' otherwise).  ('to' = at/to is kept for experiments only: plain
    schemdraw source symbols ignore .to(), which is outside the library under test.)"""
    import CircuitCalculator.SimpleCircuit.Elements as elm
    geom = geom or {}
    d = elm.Schematic(unit=geom.get("unit", 2))
    return extend_schematic(d, program, geom, style)


def extend_schematic(d, program, geom=None, style="dir"):
    """add the items of a placement program to an existing Schematic (drawings are normally built incrementally)"""
    import CircuitCalculator.SimpleCircuit.Elements as elm
    geom = geom or {}
    prev_end = None
    for it in program:
        if it["op"] == "label":
            d += elm.LabelNode(name=it["name"]).at(lattice_point(it["p"], geom))
            continue
        if it["op"] == "ground":
            d += elm.Ground().at(lattice_point(it["p"], geom)) if "name" not in it else elm.Ground(name=it["name"]).at(lattice_point(it["p"], geom))
            continue
        e = elm.Line() if it["op"] == "wire" else _symbol(it)
        P, Q = lattice_point(it["p"], geom), lattice_point(it["q"], geom)
        st = style
        if st == "chain" and (prev_end is None or tuple(it["p"]) != prev_end):
            st = "dir"
        if st == "to":
            e = e.at(P).to(Q)
        else:
            dx, dy = Q[0] - P[0], Q[1] - P[1]
            length = (dx * dx + dy * dy) ** 0.5
            if abs(dx) >= abs(dy):
                meth = "right" if dx > 0 else "left"
            else:
                meth = "up" if dy > 0 else "down"
            if st == "dir":
                e = e.at(P)
            e = getattr(e, meth)(length)
        d += e
        prev_end = tuple(it["q"])
    return d
