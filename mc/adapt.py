"""The only place that builds library objects from reference netlists."""
from .ref import netlist as rn


def lib():
    from CircuitCalculator.Network import elements as elm
    from CircuitCalculator.Network.network import Network, Branch
    return elm, Network, Branch


def element(b):
    elm, _, _ = lib()
    n1, n2, kind, bid, p = b
    c = rn.c
    if kind == "Z":
        return elm.impedance(bid, c(p[0]))
    if kind == "Y":
        return elm.admittance(bid, c(p[0]))
    if kind == "R":
        return elm.resistor(bid, c(p[0]).real)
    if kind == "G":
        return elm.conductor(bid, c(p[0]).real)
    if kind == "load":
        return elm.load(bid, P=c(p[0]).real, V_ref=c(p[1]).real)
    if kind == "V":
        return elm.voltage_source(bid, V=c(p[0]))
    if kind == "I":
        return elm.current_source(bid, I=c(p[0]))
    if kind == "LV":
        return elm.voltage_source(bid, V=c(p[0]), Z=c(p[1]))
    if kind == "LI":
        return elm.current_source(bid, I=c(p[0]), Y=c(p[1]))
    if kind == "short":
        return elm.short_circuit(bid)
    if kind == "open":
        return elm.open_circuit(bid)
    raise ValueError(kind)


def network(nl):
    _, Network, Branch = lib()
    return Network([Branch(b[0], b[1], element(b)) for b in nl["branches"]], node_zero_label=nl["ref"])


def _num(x):
    """library number -> JSON-able exact spec ([re, im] floats are exact binary rationals)"""
    x = complex(x)
    return [x.real, x.imag]


def to_netlist(net):
    """Read a library Network back into a reference netlist (classification by record
    class and values, exactly as the library's own predicates see the element)."""
    from CircuitCalculator.Network import elements as elm
    out = []
    for b in net.branches:
        e = b.element
        if isinstance(e, elm.NortenElement):
            z, v = complex(e.Z), complex(e.V)
            if z == 0 and v == 0:
                k, p = "short", []
            elif z == 0:
                k, p = "V", [_num(v)]
            elif v == 0:
                k, p = "Z", [_num(z)]
            else:
                k, p = "LV", [_num(v), _num(z)]
        elif isinstance(e, elm.TheveninElement):
            y, i = complex(e.Y), complex(e.I)
            if y == 0 and i == 0:
                k, p = "open", []
            elif y == 0:
                k, p = "I", [_num(i)]
            elif i == 0:
                k, p = "Y", [_num(y)]
            else:
                k, p = "LI", [_num(i), _num(y)]
        else:
            raise TypeError(type(e))
        out.append([b.node1, b.node2, k, b.id, p])
    return {"ref": net.node_zero_label, "branches": out}
