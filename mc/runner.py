"""Driver: enumerate a property's shards on all cores, aggregate, judge, write evidence.

A property module provides
  ID, TITLE, RULE, ASSUMPTIONS, DESIGN_REF
  shards(tier)            -> list of (level_name, shard_descriptor)   simplest-first
  run_shard(desc)         -> result dict (see new_result)
  replay(case)            -> list of violation dicts for that one case
  budget_s(tier)          -> wall-clock cap (hitting it on the pristine tree is a harness bug)
  vacuity(agg, tier)      -> list of strings (problems) -- optional
"""
import hashlib
from fractions import Fraction
import importlib
import json
import multiprocessing as mp
import os
import random
import subprocess
import sys
import time
import traceback

VERIF = os.path.dirname(os.path.dirname(os.path.abspath(__file__)))
REPO_SRC = os.environ.get("VERIF_REPO_SRC", "/repo/src")
MAX_VIOL_PER_SHARD = 25
MAX_FPS_PER_SHARD = 4000
MAX_FPS_TOTAL = 3_000_000


def ensure_repo_import():
    """Make sure the library under test is the working tree, not the wheel."""
    if REPO_SRC not in sys.path:
        sys.path.insert(0, REPO_SRC)
    os.environ.setdefault("MPLBACKEND", "Agg")
    os.environ.setdefault("CIRCUITCALCULATOR_VERIF", "1")
    import CircuitCalculator
    f = os.path.realpath(CircuitCalculator.__file__)
    if not f.startswith(os.path.realpath(REPO_SRC) + os.sep):
        print(f"HARNESS-ERROR: CircuitCalculator imported from {f}, not {REPO_SRC}")
        sys.exit(2)


def new_result():
    return {"evals": 0, "states": 0, "transitions": 0, "nontrivial": 0,
            "skipped": {}, "hits": {}, "fps": set(), "violations": [],
            "samples": [], "extra": {}}


def bump(d, k, n=1):
    d[k] = d.get(k, 0) + n


def fp(*vals):
    """fingerprint of an outcome: numbers rounded to 6 significant digits."""
    out = []
    for v in vals:
        if isinstance(v, complex):
            out.append("%.5e%+.5ej" % (v.real, v.imag))
        elif isinstance(v, float):
            out.append("%.5e" % v)
        else:
            out.append(str(v))
    return hash("|".join(out)) & 0xFFFFFFFFFFFF


def add_violation(res, subcheck, case, expected=None, observed=None, msg="", kind="wrong_value"):
    if len(res["violations"]) < MAX_VIOL_PER_SHARD:
        res["violations"].append({"subcheck": subcheck, "case": _j(case), "expected": _j(expected),
                                  "observed": _j(observed), "msg": msg, "kind": kind})
    bump(res["extra"], "violations_total")


def _j(x):
    """make JSON-able"""
    if x is None or isinstance(x, (bool, int, str)):
        return x
    if isinstance(x, Fraction):
        return str(x)          # "p/q" (or "p"): parses back with Fraction(...)
    if isinstance(x, float):
        return x if x == x and abs(x) != float("inf") else repr(x)
    if isinstance(x, complex):
        return [_j(x.real), _j(x.imag)]
    if isinstance(x, dict):
        return {str(k): _j(v) for k, v in x.items()}
    if isinstance(x, (list, tuple, set)):
        return [_j(v) for v in x]
    try:
        import numpy as np
        if isinstance(x, np.generic):
            return _j(x.item())
        if isinstance(x, np.ndarray):
            return _j(x.tolist())
    except Exception:
        pass
    return repr(x)


_MOD = None


def _init_worker(modname):
    global _MOD
    for v in ("OMP_NUM_THREADS", "OPENBLAS_NUM_THREADS", "MKL_NUM_THREADS"):
        os.environ[v] = "1"
    ensure_repo_import()
    _MOD = importlib.import_module(modname)


_WORKER_HISTORY = []


def _work(item):
    idx, level, desc = item
    t0 = time.time()
    try:
        r = _MOD.run_shard(desc)
    except Exception:
        r = new_result()
        r["harness_error"] = traceback.format_exc()
    for v in r["violations"][:3]:
        v["shard"] = _j(desc)
        v["worker_history"] = [_j(d) for d in _WORKER_HISTORY]      # the shards this worker process ran before, in order
    for v in r["violations"][3:]:
        v["shard"] = _j(desc)
    _WORKER_HISTORY.append(desc)
    r["level"] = level
    r["idx"] = idx
    r["t"] = time.time() - t0
    if len(r["fps"]) > MAX_FPS_PER_SHARD:
        r["fps"] = set(list(r["fps"])[:MAX_FPS_PER_SHARD])
    return r


def case_hash(v):
    s = json.dumps({"subcheck": v["subcheck"], "case": v["case"]}, sort_keys=True, default=repr)
    return hashlib.sha1(s.encode()).hexdigest()[:16]


def run_property(modname, tier, seed, nproc=None):
    from . import findings as fnd
    t0 = time.time()
    ensure_repo_import()
    mod = importlib.import_module(modname)
    pid = mod.ID
    shards = mod.shards(tier)
    levels = []
    for lv, _ in shards:
        if lv not in levels:
            levels.append(lv)
    level_total = {lv: 0 for lv in levels}
    for lv, _ in shards:
        level_total[lv] += 1
    items = [(i, lv, d) for i, (lv, d) in enumerate(shards)]
    # seed only permutes the hand-out order inside each level (never selects a subset)
    rng = random.Random(seed)
    by_level = {lv: [it for it in items if it[1] == lv] for lv in levels}
    ordered = []
    for lv in levels:
        rng.shuffle(by_level[lv])
        ordered.extend(by_level[lv])
    budget = mod.budget_s(tier)
    nproc = nproc or int(os.environ.get("VERIF_NPROC", "0")) or min(16, os.cpu_count() or 1)

    agg = new_result()
    agg["levels"] = {lv: {"shards": level_total[lv], "done": 0, "evals": 0} for lv in levels}
    harness_errors = []
    capped = False
    ctx = mp.get_context("fork")
    with ctx.Pool(nproc, initializer=_init_worker, initargs=(modname,)) as pool:
        it = pool.imap_unordered(_work, ordered, chunksize=1)
        done = 0
        while done < len(ordered):
            left = budget - (time.time() - t0)
            if left <= 0:
                capped = True
                pool.terminate()
                break
            try:
                r = it.next(timeout=max(left, 0.1))
            except mp.TimeoutError:
                capped = True
                pool.terminate()
                break
            done += 1
            if "harness_error" in r:
                harness_errors.append(r["harness_error"])
                continue
            for k in ("evals", "states", "transitions", "nontrivial"):
                agg[k] += r[k]
            for k, v in r["skipped"].items():
                bump(agg["skipped"], k, v)
            for k, v in r["hits"].items():
                bump(agg["hits"], k, v)
            for k, v in r["extra"].items():
                if isinstance(v, (int, float)):
                    bump(agg["extra"], k, v)
                elif isinstance(v, dict):
                    d = agg["extra"].setdefault(k, {})
                    for kk, vv in v.items():
                        bump(d, kk, vv)
            if len(agg["fps"]) < MAX_FPS_TOTAL:
                agg["fps"] |= r["fps"]
            if "state_keys" in r:
                agg.setdefault("state_keys", set()).update(r["state_keys"])
            agg["violations"].extend(r["violations"])
            if len(agg["samples"]) < 200:
                agg["samples"].extend(r["samples"][:2])
            L = agg["levels"][r["level"]]
            L["done"] += 1
            L["evals"] += r["evals"]
            L["cpu_s"] = round(L.get("cpu_s", 0) + r["t"], 2)

    if harness_errors:
        print("HARNESS-ERROR in %d shard(s); first:\n%s" % (len(harness_errors), harness_errors[0]))
        return 2

    # ---- classify violations
    known = fnd.load_findings(pid)
    matched = {}
    fresh = []
    for v in agg["violations"]:
        f = fnd.match(known, v)
        if f is not None:
            matched[f["name"]] = matched.get(f["name"], 0) + 1
        else:
            fresh.append(v)
    # de-duplicate fresh by (subcheck, case)
    seen, uniq = set(), []
    for v in fresh:
        h = case_hash(v)
        if h not in seen:
            seen.add(h)
            v["_hash"] = h
            uniq.append(v)
    uniq.sort(key=lambda v: (0 if "worker_history" in v else 1, len(json.dumps(v["case"], default=repr)), v["_hash"]))
    total_viol = int(agg["extra"].get("violations_total", 0))

    complete_levels = [lv for lv in levels if agg["levels"][lv]["done"] == agg["levels"][lv]["shards"]]
    exhaustive = (not capped) and len(complete_levels) == len(levels)

    problems = []
    if hasattr(mod, "vacuity") and not uniq:
        problems = mod.vacuity(agg, tier) or []
    if capped and not uniq:
        problems.append("budget of %ss hit before the stated space was finished" % budget)

    # ---- evidence
    rs = random.Random(seed)
    samples = list(agg["samples"])
    rs.shuffle(samples)
    samples = samples[:6]
    if agg.get("state_keys"):
        agg["states"] = len(agg["state_keys"])      # distinct canonical states across all workers
    cov = {
        "states": agg["states"],
        "transitions": agg["transitions"],
        "traces_validated_against_impl": agg["transitions"],
        "evaluations": agg["evals"],
        "distinct_nontrivial": agg["nontrivial"],
        "rule": mod.RULE,
        "samples": _j(samples) if samples else [],
        "exhaustive": bool(exhaustive),
        "levels": {lv: dict(agg["levels"][lv], complete=(lv in complete_levels)) for lv in levels},
        "cap_hit": capped,
        "budget_s": budget,
        "skipped_outside_domain": agg["skipped"],
        "subcheck_hits": agg["hits"],
        "distinct_outcome_fingerprints": len(agg["fps"]),
        "known_findings_matched": matched,
        "workers": nproc,
        "explanation": getattr(mod, "EXPLANATION", ""),
    }
    for k, v in agg["extra"].items():
        if k != "violations_total":
            cov[k] = v
    ev = {
        "property_id": pid, "tier": tier, "seed": int(seed), "level": getattr(mod, "LEVEL", "model_checking"),
        "coverage": cov, "assumptions": list(mod.ASSUMPTIONS), "wall_s": round(time.time() - t0, 2),
        "violations": len(uniq) if uniq else 0,
    }
    os.makedirs(os.path.join(VERIF, "evidence"), exist_ok=True)
    evp = os.path.join(VERIF, "evidence", pid + ".json")
    with open(evp + ".tmp", "w") as f:
        json.dump(ev, f, indent=1, sort_keys=True)
    os.replace(evp + ".tmp", evp)

    print("%s tier=%s seed=%s shards=%d evals=%d states=%d transitions=%d nontrivial=%d outcomes=%d "
          "skipped=%s exhaustive=%s wall=%.1fs" % (pid, tier, seed, len(ordered), agg["evals"], agg["states"],
                                                   agg["transitions"], agg["nontrivial"], len(agg["fps"]),
                                                   sum(agg["skipped"].values()), exhaustive, time.time() - t0))
    print("  subcheck hits: " + ", ".join("%s=%d" % kv for kv in sorted(agg["hits"].items())))
    for f in known:
        if f["status"] == "open":
            print("KNOWN-FINDING: property=%s %s [%s; matched %d case(s) this run]" % (
                pid, f["what"], f["name"], matched.get(f["name"], 0)))

    if uniq:
        rdir = os.path.join(VERIF, "replays", pid)
        os.makedirs(rdir, exist_ok=True)
        for old in os.listdir(rdir):
            if old.endswith(".json"):
                os.remove(os.path.join(rdir, old))
        shown = 0
        hist = {}
        for v in uniq:
            hist[(v["subcheck"], v.get("kind"))] = hist.get((v["subcheck"], v.get("kind")), 0) + 1
        print("  new violations by (subcheck, kind): " + ", ".join("%s/%s=%d" % (k[0], k[1], n) for k, n in sorted(hist.items())))
        # show one representative per (subcheck, kind) first
        firsts, rest, seenk = [], [], set()
        for v in uniq:
            k = (v["subcheck"], v.get("kind"))
            (rest if k in seenk else firsts).append(v)
            seenk.add(k)
        uniq = firsts + rest
        for v in uniq[:10]:
            path = os.path.join(rdir, v["_hash"] + ".json")
            vv = {k: v[k] for k in v if k != "_hash"}
            vv["property"] = pid     # (the file also carries the shard descriptor, used when the case alone does not reproduce)
            with open(path, "w") as f:
                json.dump(vv, f, indent=1, sort_keys=True, default=repr)
            v["_path"] = path
        # replay the first few in a fresh interpreter before reporting
        for v in uniq[:2]:
            rc = subprocess.run([sys.executable, os.path.join(VERIF, "mc", "cli.py"), "--replay", v["_path"], "--quiet"],
                                capture_output=True, text=True)
            if rc.returncode != 1:
                # not reproducible from the single input: the answer may depend on what the process analysed before.
                # Re-run the whole shard (a deterministic sequence of inputs) in a fresh interpreter.
                with open(v["_path"]) as f:
                    vv = json.load(f)
                vv["history_dependent"] = True
                with open(v["_path"], "w") as f:
                    json.dump(vv, f, indent=1, sort_keys=True, default=repr)
                rc2 = subprocess.run([sys.executable, os.path.join(VERIF, "mc", "cli.py"), "--replay", v["_path"], "--quiet"],
                                     capture_output=True, text=True)
                if rc2.returncode != 1 and vv.get("worker_history") is not None:
                    vv["history_dependent"] = "worker"
                    with open(v["_path"], "w") as f:
                        json.dump(vv, f, indent=1, sort_keys=True, default=repr)
                    rc2 = subprocess.run([sys.executable, os.path.join(VERIF, "mc", "cli.py"), "--replay", v["_path"], "--quiet"],
                                         capture_output=True, text=True)
                if rc2.returncode != 1:
                    print("NONDETERMINISM: case %s failed in the explorer but neither alone, nor as part of its shard, nor after the shards its worker had "
                          "run before (rc=%d/%d)\n%s" % (v["_path"], rc.returncode, rc2.returncode, rc2.stdout[-2000:] + rc2.stderr[-2000:]))
                    return 2
                v["msg"] = "[only after earlier inputs - the answer depends on the history of the process] " + v["msg"]
        for v in uniq[:10]:
            print("  [%s] %s expected=%s observed=%s" % (v["subcheck"], v["msg"][:300],
                                                        str(v["expected"])[:120], str(v["observed"])[:120]))
            print("VIOLATION property=%s replay=%s" % (pid, v["_path"]))
            shown += 1
        print("  %d distinct new violating case(s) recorded (of %d violation reports in total)" % (len(uniq), total_viol))
        return 1
    if problems:
        for p in problems:
            print("HARNESS-ERROR (vacuity/self-check): " + p)
        return 2
    print("%s OK" % pid)
    return 0


def _tuplify(x):
    if isinstance(x, list):
        return tuple(_tuplify(v) for v in x)
    return x


def replay_file(path, quiet=False):
    ensure_repo_import()
    from . import findings as fnd
    with open(path) as f:
        v = json.load(f)
    pid = v["property"]
    mod = importlib.import_module("props." + pid.lower())
    if v.get("history_dependent"):
        # replay the whole shard (the deterministic sequence of inputs that preceded the failing one) and look for the same case;
        # in "worker" mode first re-run the shards the worker process had handled before, in the same order
        if v.get("history_dependent") == "worker":
            for d in v.get("worker_history") or []:
                mod.run_shard(_tuplify(d))
        r = mod.run_shard(_tuplify(v["shard"]))
        key = json.dumps(_j(v["case"]), sort_keys=True, default=repr)
        vs = [x for x in r["violations"] if json.dumps(_j(x["case"]), sort_keys=True, default=repr) == key]
        if not vs:
            vs = [x for x in r["violations"] if x["subcheck"] == v["subcheck"]][:1]
    else:
        vs = mod.replay(v["case"])
    same = [x for x in vs if x["subcheck"] == v["subcheck"]]
    if not quiet:
        print("replay %s: property=%s subcheck=%s" % (path, pid, v["subcheck"]))
        print("  case: " + json.dumps(v["case"], default=repr)[:2000])
        for x in vs:
            print("  FAIL [%s] %s\n     expected=%s\n     observed=%s" % (x["subcheck"], x["msg"], x["expected"], x["observed"]))
    if same:
        known = fnd.load_findings(pid)
        if all(fnd.match(known, x) is not None for x in same):
            print("KNOWN-FINDING: property=%s (replayed case matches a listed finding)" % pid)
            return 0
        print("VIOLATION property=%s replay=%s" % (pid, path))
        return 1
    if not quiet:
        print("  case passes" + (" (other sub-checks failed)" if vs else ""))
    return 0
