"""Known-findings file: read-only at run time.  A violation is attributed to a finding
only if property, sub-check, failure kind and the named predicate over the failing input
all match; anything else is a fresh violation.  'fixed' entries suppress nothing."""
import json
import os

VERIF = os.path.dirname(os.path.dirname(os.path.abspath(__file__)))
PATH = os.path.join(VERIF, "known_findings.json")

PREDICATES = {}


def predicate(name):
    def deco(f):
        PREDICATES[name] = f
        return f
    return deco


def load_findings(pid):
    if not os.path.exists(PATH):
        return []
    with open(PATH) as f:
        data = json.load(f)
    out = []
    for e in data.get("findings", []):
        props = e["property"] if isinstance(e["property"], list) else [e["property"]]
        if pid in props:
            out.append(e)
    return out


def match(known, v):
    for f in known:
        if f.get("status") != "open":
            continue
        if v["subcheck"] not in f.get("subchecks", []):
            continue
        kinds = f.get("kinds")
        if kinds and v.get("kind") not in kinds:
            continue
        p = PREDICATES.get(f.get("predicate"))
        if p is None:
            continue
        try:
            if p(v["case"], v):
                return f
        except Exception:
            continue
    return None


from . import finding_predicates  # noqa: E402,F401  (registers predicates)
