"""Exact arithmetic over Q(i): Gaussian rationals, linear solve, determinant.

Used only by the reference models (never imports CircuitCalculator).
"""
from fractions import Fraction as F


class GQ:
    """Gaussian rational re + i*im with Fraction parts."""
    __slots__ = ("re", "im")

    def __init__(self, re=0, im=0):
        self.re = re if isinstance(re, F) else F(re)
        self.im = im if isinstance(im, F) else F(im)

    @staticmethod
    def of(x):
        if isinstance(x, GQ):
            return x
        if isinstance(x, complex):
            return GQ(F(x.real), F(x.imag))
        if isinstance(x, tuple):
            return GQ(F(x[0]), F(x[1]))
        return GQ(F(x), 0)

    def __add__(self, o):
        o = GQ.of(o)
        return GQ(self.re + o.re, self.im + o.im)
    __radd__ = __add__

    def __sub__(self, o):
        o = GQ.of(o)
        return GQ(self.re - o.re, self.im - o.im)

    def __rsub__(self, o):
        return GQ.of(o) - self

    def __neg__(self):
        return GQ(-self.re, -self.im)

    def __mul__(self, o):
        o = GQ.of(o)
        if not self.im and not o.im:
            return GQ(self.re * o.re, 0)
        return GQ(self.re * o.re - self.im * o.im, self.re * o.im + self.im * o.re)
    __rmul__ = __mul__

    def inv(self):
        d = self.re * self.re + self.im * self.im
        return GQ(self.re / d, -self.im / d)

    def __truediv__(self, o):
        return self * GQ.of(o).inv()

    def __rtruediv__(self, o):
        return GQ.of(o) * self.inv()

    def conj(self):
        return GQ(self.re, -self.im)

    def is_zero(self):
        return not self.re and not self.im

    def __bool__(self):
        return bool(self.re) or bool(self.im)

    def __eq__(self, o):
        if isinstance(o, str) or o is None:
            return False
        o = GQ.of(o)
        return self.re == o.re and self.im == o.im

    def __hash__(self):
        return hash((self.re, self.im))

    def __complex__(self):
        return complex(float(self.re), float(self.im))

    def abs2(self):
        return self.re * self.re + self.im * self.im

    def __abs__(self):
        return float(self.abs2()) ** 0.5

    def __repr__(self):
        return f"GQ({self.re},{self.im})"


ZERO = GQ(0, 0)
ONE = GQ(1, 0)


def _to_gq_matrix(M):
    return [[GQ.of(x) for x in row] for row in M]


def det(M):
    """Determinant by fraction Gaussian elimination."""
    A = _to_gq_matrix(M)
    n = len(A)
    d = ONE
    for c in range(n):
        p = None
        for r in range(c, n):
            if A[r][c]:
                p = r
                break
        if p is None:
            return ZERO
        if p != c:
            A[c], A[p] = A[p], A[c]
            d = -d
        piv = A[c][c]
        d = d * piv
        ip = piv.inv()
        for r in range(c + 1, n):
            if A[r][c]:
                f = A[r][c] * ip
                row, prow = A[r], A[c]
                for k in range(c, n):
                    if prow[k]:
                        row[k] = row[k] - f * prow[k]
    return d


def solve(M, b):
    """Solve M x = b exactly. Returns list of GQ or None if singular.  b may be a
    list (vector) or list of lists (several right-hand sides as columns)."""
    A = _to_gq_matrix(M)
    n = len(A)
    multi = n > 0 and isinstance(b[0], (list, tuple))
    if multi:
        B = [[GQ.of(x) for x in row] for row in b]
    else:
        B = [[GQ.of(x)] for x in b]
    m = len(B[0]) if n else 0
    for c in range(n):
        p = None
        for r in range(c, n):
            if A[r][c]:
                p = r
                break
        if p is None:
            return None
        if p != c:
            A[c], A[p] = A[p], A[c]
            B[c], B[p] = B[p], B[c]
        ip = A[c][c].inv()
        for k in range(c, n):
            A[c][k] = A[c][k] * ip
        for k in range(m):
            B[c][k] = B[c][k] * ip
        for r in range(n):
            if r != c and A[r][c]:
                f = A[r][c]
                row, prow = A[r], A[c]
                for k in range(c, n):
                    if prow[k]:
                        row[k] = row[k] - f * prow[k]
                for k in range(m):
                    if B[c][k]:
                        B[r][k] = B[r][k] - f * B[c][k]
    if multi:
        return B
    return [row[0] for row in B]


def rank(M):
    A = _to_gq_matrix(M)
    if not A:
        return 0
    rows, cols = len(A), len(A[0])
    r = 0
    for c in range(cols):
        p = None
        for i in range(r, rows):
            if A[i][c]:
                p = i
                break
        if p is None:
            continue
        A[r], A[p] = A[p], A[r]
        ip = A[r][c].inv()
        for i in range(r + 1, rows):
            if A[i][c]:
                f = A[i][c] * ip
                for k in range(c, cols):
                    A[i][k] = A[i][k] - f * A[r][k]
        r += 1
        if r == rows:
            break
    return r
